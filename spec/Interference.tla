----------------------------- MODULE Interference -----------------------------
(***************************************************************************)
(* C10 as information flow.  Every quantity of one estimate run is a node; *)
(* `dep[x]` is the set of units whose COUNTED VOTES can influence x.  Each *)
(* action is one pipeline step and sets dep of its outputs to the union of *)
(* dep of the inputs the code reads at that step:                          *)
(*   Split     frames from percent expected vote, baseline, blocklists     *)
(*             (the count of a reporting unit also decides its turnout     *)
(*             factor class, hence its own frame: reporting units are not  *)
(*             "outstanding or excluded" and are outside the property)     *)
(*   Fit       regressions read residuals / margins / turnout factors and  *)
(*             weights of the REPORTING frame only (features of all units  *)
(*             are read for centring, never counts)                        *)
(*   Calibrate conformal split, corrections, gaussian pools, bootstrap     *)
(*             contest effects and strata distributions: reporting frame   *)
(*   UnitOut   a nonreporting unit's prediction / bounds: the fits, the    *)
(*             calibration, and its OWN partial count (floor; bootstrap:   *)
(*             its own clip bounds); every other unit: its own count       *)
(*   GroupOut  a group's cells: union over its member units, plus the      *)
(*             calibration for model-based group bounds                    *)
(* Historical evaluation: HideBelowThreshold replaces the historical       *)
(* result of every unit below the threshold by 0 before anything reads it. *)
(***************************************************************************)
EXTENDS Naturals, FiniteSets, TLC

CONSTANTS Units, Groups, Historical,
          Leak   \* "none": the design as implemented; "fit_reads_all": the fit reads every unit's counts (e.g. weights or
                 \* centring computed from partial counts) - the kind of change C10 excludes

VARIABLES kind,   \* [Units -> {"R", "N", "X"}]  reporting-modelled / nonreporting-modelled / passed through
          grp,    \* [Units -> Groups]
          below,  \* [Units -> BOOLEAN] below the reporting threshold (historical clause)
          dep,    \* [node -> SUBSET Units]
          ipc
ivars == <<kind, grp, below, dep, ipc>>

R == {u \in Units : kind[u] = "R"}
N == {u \in Units : kind[u] = "N"}
X == {u \in Units : kind[u] = "X"}

UnitNode(u) == <<"unit", u>>
GroupNode(g) == <<"group", g>>
Nodes == {<<"input", u>> : u \in Units} \cup {<<"fit">>, <<"cal">>} \cup {UnitNode(u) : u \in Units} \cup {GroupNode(g) : g \in Groups}

\* what the model sees of unit u's count: in a historical evaluation the result of a unit below the threshold is
\* replaced by 0 before the model runs
Visible(u) == IF Historical /\ below[u] THEN {} ELSE {u}

Fit ==
  /\ ipc = "fit"
  /\ dep' = [x \in Nodes |-> IF x = <<"fit">>
                             THEN UNION {Visible(u) : u \in (IF Leak = "fit_reads_all" THEN Units ELSE R)}
                             ELSE dep[x]]
  /\ ipc' = "cal"
  /\ UNCHANGED <<kind, grp, below>>

Calibrate ==
  /\ ipc = "cal"
  /\ dep' = [dep EXCEPT ![<<"cal">>] = dep[<<"fit">>] \cup UNION {Visible(u) : u \in R}]
  /\ ipc' = "unit"
  /\ UNCHANGED <<kind, grp, below>>

UnitOut ==
  /\ ipc = "unit"
  /\ dep' = [x \in Nodes |->
               IF \E u \in Units : x = UnitNode(u)
               THEN LET u == CHOOSE v \in Units : x = UnitNode(v)
                    IN  IF u \in N THEN dep[<<"fit">>] \cup dep[<<"cal">>] \cup Visible(u) ELSE Visible(u)
               ELSE dep[x]]
  /\ ipc' = "group"
  /\ UNCHANGED <<kind, grp, below>>

GroupOut ==
  /\ ipc = "group"
  /\ dep' = [x \in Nodes |->
               IF \E g \in Groups : x = GroupNode(g)
               THEN LET g == CHOOSE h \in Groups : x = GroupNode(h)
                        members == {u \in Units : grp[u] = g}
                    IN  UNION {dep[UnitNode(u)] : u \in members}
                        \cup (IF members \cap N # {} THEN dep[<<"cal">>] ELSE {})
               ELSE dep[x]]
  /\ ipc' = "done"
  /\ UNCHANGED <<kind, grp, below>>

INext == Fit \/ Calibrate \/ UnitOut \/ GroupOut
IInit ==
  /\ kind \in [Units -> {"R", "N", "X"}]
  /\ grp \in [Units -> Groups]
  /\ below \in [Units -> BOOLEAN]
  /\ \A u \in Units : (kind[u] = "N" => below[u]) /\ (kind[u] = "R" => ~below[u])
  /\ dep = [x \in Nodes |-> {}]
  /\ ipc = "fit"
ISpec == IInit /\ [][INext]_ivars

\* C10: the count of an outstanding or excluded unit reaches only its own row and the groups containing it
NonInterference ==
  ipc = "done" =>
    \A u \in N \cup X :
      /\ \A v \in Units \ {u} : u \notin dep[UnitNode(v)]
      /\ \A g \in Groups : grp[u] # g => u \notin dep[GroupNode(g)]
\* historical clause: a unit that is not yet reporting influences nothing at all
HistoricalHidden ==
  (ipc = "done" /\ Historical) =>
    \A u \in Units : below[u] => \A x \in Nodes : u \notin dep[x]
\* non-vacuity: a reporting unit does reach everyone (so dep is not trivially empty)
ReportingReaches ==
  (ipc = "done" /\ ~Historical) =>
    \A r \in R : \A n \in N : r \in dep[UnitNode(n)]
=============================================================================
