--------------------------- MODULE InputValidation ---------------------------
(***************************************************************************)
(* Supplementary model (no listed property): the argument checks of        *)
(* ModelClient.get_estimates (client._check_input_parameters) as an        *)
(* ordered decision list.  The request is abstracted to one flag per       *)
(* check ("is this argument acceptable for the configuration?"); the       *)
(* checks run in code order and the first one that fails decides the       *)
(* error.  A request that passes every check reaches the pipeline.         *)
(*                                                                         *)
(* Code order (client.py L64-168):                                         *)
(*   office, geographic unit type, features, aggregates, fixed effects,    *)
(*   estimator name, model_parameters is a dict, lambda_, turnout factor   *)
(*   limits, estimator-specific parameters (only those of the chosen       *)
(*   estimator are looked at), unreporting policy.                         *)
(* Unknown estimands are NOT an error (they are created on the fly).       *)
(***************************************************************************)
EXTENDS Naturals, Sequences, TLC

Checks == <<"office", "unit_type", "features", "aggregates", "fixed_effects", "estimator", "params_dict",
            "lambda", "tf_limits", "estimator_param", "policy">>

VARIABLES req,     \* [ok : [Checks' range -> BOOLEAN], estimator, paramOf, unknownEstimand]
          vpc, k, verdict
vvars == <<req, vpc, k, verdict>>

\* an estimator-specific parameter is only examined when it belongs to the chosen estimator, and no parameter is
\* examined when the parameter dictionary is empty
Examined(c) ==
  CASE c = "estimator_param" -> req.estimator = req.paramOf
    [] OTHER -> TRUE
Fails(c) == Examined(c) /\ ~req.ok[c]

Step ==
  /\ vpc = "checking"
  /\ IF k > Len(Checks)
     THEN verdict' = "accepted" /\ vpc' = "done" /\ k' = k
     ELSE IF Fails(Checks[k])
          THEN verdict' = Checks[k] /\ vpc' = "done" /\ k' = k
          ELSE verdict' = verdict /\ vpc' = vpc /\ k' = k + 1
  /\ UNCHANGED req
VInitRest == vpc = "checking" /\ k = 1 /\ verdict = "none"

VDone == vpc = "done"
FirstFailureDecides ==
  VDone => IF \E i \in 1..Len(Checks) : Fails(Checks[i])
           THEN verdict = Checks[CHOOSE i \in 1..Len(Checks) : Fails(Checks[i]) /\ \A j \in 1..(i - 1) : ~Fails(Checks[j])]
           ELSE verdict = "accepted"
UnknownEstimandAccepted ==
  (VDone /\ req.unknownEstimand /\ \A i \in 1..Len(Checks) : ~Fails(Checks[i])) => verdict = "accepted"
ForeignParamIgnored ==
  (VDone /\ req.estimator # req.paramOf /\ \A i \in 1..Len(Checks) : (Checks[i] # "estimator_param" => req.ok[Checks[i]]))
     => verdict = "accepted"
=============================================================================
