------------------------------- MODULE Ledger -------------------------------
(***************************************************************************)
(* The vote ledger of one estimate run: how CombinedDataHandler splits the *)
(* units of baseline + live feed into the three frames (reporting,        *)
(* nonreporting, "unexpected" = unexpected + non-modelled), and how        *)
(* BaseElectionModel / the estimators / ModelResultsHandler turn the three *)
(* frames into the unit table and one table per requested aggregate.       *)
(*                                                                         *)
(* One action per code step (DESIGN 5/C01):                                *)
(*   Merge         CombinedDataHandler.__init__  left join on (state,id)   *)
(*   Policy        ... dropna / fillna(0)+pev:=0                           *)
(*   SplitRep      get_units: pev >= threshold                             *)
(*   FindUnexp     _get_unexpected_units (feed ids not among joined ids)   *)
(*   NonModelled   _get_non_modeled_units (concat order = first reason)    *)
(*   Frames        get_units: remove unexpected / non-modelled, concat     *)
(*   UnitTable     ModelResultsHandler.add_unit_* (concat of the frames)   *)
(*   Aggregate(k)  _get_reporting_aggregate_votes + get_aggregate_         *)
(*                 predictions + nonparametric interval sums, per level    *)
(*                                                                         *)
(* The scenario `sc` is data: in MC_Ledger it is chosen by TLC from a      *)
(* small universe, in Trace_Ledger it is read from a recorded real run.    *)
(***************************************************************************)
EXTENDS Integers, Sequences, FiniteSets, FiniteSetsExt, SequencesExt, TLC

VARIABLES sc,       \* the scenario (inputs of the run); never changes
          pc,       \* next code step
          data,     \* ids of the rows of CombinedDataHandler.data
          dvotes,   \* [data -> counted votes of the joined row]
          drep,     \* [data -> pev >= threshold on the joined row]
          unexp,    \* ids of unexpected feed rows
          nmcat,    \* [non-modelled ids -> category string]
          fR, fN, fX, \* the three frames handed to the model
          utable,   \* the unit table: [id -> [state, cat, reporting, votes]]
          tables    \* [level -> [rows: Seq(key), val: [key -> [counted, reporting, pred, lower, upper]]]]

vars == <<sc, pc, data, dvotes, drep, unexp, nmcat, fR, fN, fX, utable, tables>>

NA == "~"                       \* a missing key component (NaN): pandas groupby drops the row

Ids      == 1..Len(sc.units)
Un(i)    == sc.units[i]
Rng(s) == {s[k] : k \in DOMAIN s}
Levels   == Rng(sc.levels)
NAlpha   == sc.nalpha           \* number of interval levels carried by unit outputs (0 in pure ledger scenarios)

Matched(i) == Un(i).inBase /\ Un(i).inFeed /\ Un(i).bstate = Un(i).fstate
\* the feed row carries a missing value for one of the requested estimands (not the one whose votes are tracked here):
\* 'drop' removes the joined row (the feed row is then passed through as unexpected), 'zero' keeps it as not reporting
Complete(i) == Matched(i) /\ ~Un(i).nullRes

SumOver(S, f(_)) == FoldSet(LAMBDA i, acc : acc + f(i), 0, S)

---------------------------------------------------------------------------
(* keys *)

\* client.get_aggregate_list: default aggregates of the office minus "unit", plus the level, in AGGREGATE_ORDER
AggOrder == <<"postal_code", "district", "county_classification", "county_fips">>
AggKeys(level) ==
  LET want == {"postal_code", level} \cup (IF sc.districtOffice THEN {"district"} ELSE {})
  IN  SelectSeq(AggOrder, LAMBDA c : c \in want)

\* _get_unexpected_units: which keys of an unexpected unit are recovered from its id.  county_fips and district
\* when they are among the requested aggregates; district also whenever the geographic unit type carries one
\* (every table of a district office is keyed by district, see AggKeys).
Recover == (Levels \cap {"county_fips", "district"}) \cup (IF sc.districtGut THEN {"district"} ELSE {})

\* value of key column c on the row of unit i in the frames handed to the model
KeyVal(i, c) ==
  IF i \in data
  THEN CASE c = "postal_code"            -> Un(i).bstate
         [] c = "county_fips"            -> Un(i).county
         [] c = "district"               -> Un(i).district
         [] c = "county_classification"  -> Un(i).cls
  ELSE CASE c = "postal_code"            -> Un(i).fstate
         [] c = "county_fips"            -> IF "county_fips" \in Recover THEN Un(i).idCounty ELSE NA
         \* the district is the first id component; ids of a non-district unit type start with the county
         \* (deliberate deviation: requesting "district" for such a unit type groups unexpected units by that component)
         [] c = "district"               -> IF "district" \in Recover
                                            THEN (IF sc.districtGut THEN Un(i).idDistrict ELSE Un(i).idCounty)
                                            ELSE NA
         [] c = "county_classification"  -> NA

GroupKey(i, keys) == [k \in 1..Len(keys) |-> KeyVal(i, keys[k])]
Defined(i, keys)  == \A k \in 1..Len(keys) : KeyVal(i, keys[k]) # NA

\* df.groupby(keys): key -> member rows; rows with a missing key are dropped
GroupBy(S, keys) ==
  LET ok == {i \in S : Defined(i, keys)}
      ks == {GroupKey(i, keys) : i \in ok}
  IN  [g \in ks |-> {i \in ok : GroupKey(i, keys) = g}]

\* order of key strings as pandas sorts them: position in sc.order
Rank(s) == CHOOSE k \in DOMAIN sc.order : sc.order[k] = s
RECURSIVE KeyLess(_, _, _)
KeyLess(a, b, k) ==
  IF k > Len(a) THEN FALSE
  ELSE IF a[k] = b[k] THEN KeyLess(a, b, k + 1)
  ELSE Rank(a[k]) < Rank(b[k])
SortKeys(S) == SetToSortSeq(S, LAMBDA a, b : KeyLess(a, b, 1))

---------------------------------------------------------------------------
(* per-row quantities *)

RowVotes(i)  == IF i \in data THEN dvotes[i] ELSE Un(i).votes      \* results_<estimand> on the row
\* model outputs for a nonreporting row are inputs of this specification
OutPred(i)     == Un(i).pred
OutLower(i, a) == Un(i).lower[a]
OutUpper(i, a) == Un(i).upper[a]

---------------------------------------------------------------------------
(* actions *)

Merge ==
  /\ pc = "merge"
  /\ data' = {i \in Ids : Un(i).inBase}              \* left join keeps every baseline row
  /\ pc' = "policy"
  /\ UNCHANGED <<sc, dvotes, drep, unexp, nmcat, fR, fN, fX, utable, tables>>

Policy ==
  /\ pc = "policy"
  /\ IF sc.policy = "drop"
     THEN data' = {i \in data : Complete(i)}         \* dropna(how="any") on the result columns
     ELSE data' = data                               \* zero: missing results := 0, pev := 0
  /\ dvotes' = [i \in data' |-> IF Matched(i) THEN Un(i).votes ELSE 0]
  /\ drep'   = [i \in data' |-> IF Complete(i) THEN Un(i).rep ELSE FALSE]
  /\ pc' = "unexpected"
  /\ UNCHANGED <<sc, unexp, nmcat, fR, fN, fX, utable, tables>>

FindUnexp ==
  /\ pc = "unexpected"
  \* feed rows whose id is not among the ids of the joined data (ids only: the state is not compared)
  /\ unexp' = {i \in Ids : Un(i).inFeed /\ i \notin data}
  /\ pc' = "nonmodelled"
  /\ UNCHANGED <<sc, data, dvotes, drep, nmcat, fR, fN, fX, utable, tables>>

Blocklisted(i) == Un(i).blockUnit \/ Un(i).bstate \in Rng(sc.blockStates)
RepExpected    == {i \in data : drep[i]} \ unexp

\* the outlier detection models run only when switched on and with more than 20 reporting expected units
\* (the margin one only when margin is an estimand)
\* sc.extraRep: reporting expected units of the same run outside the scenario (the harness' ballast state)
NRepExpected == Cardinality(RepExpected) + sc.extraRep
EnabledT == sc.optT /\ NRepExpected > 20
EnabledM == sc.isMargin /\ sc.optM /\ NRepExpected > 20

\* the units the outlier detection models are fitted on (their read set): the reporting expected units that no hard
\* rule (blocklist, zero baseline, strange turnout factor) has already set aside  (repair of finding F16)
OutlierCandidates == {i \in RepExpected : ~Blocklisted(i) /\ ~Un(i).zeroBase /\ ~Un(i).tfStrange}

\* concat order in _get_non_modeled_units, then drop_duplicates keeps the first
Reason(i) ==
  CASE Blocklisted(i)                          -> "non-modeled: blocklisted"
    [] Un(i).zeroBase                          -> "non-modeled: zero baseline"
    [] i \in RepExpected /\ Un(i).tfStrange    -> "non-modeled: strange turnout factor"
    [] i \in RepExpected /\ EnabledT /\ Un(i).outlierT -> "non-modeled: strange turnout factor modeled"
    [] i \in RepExpected /\ EnabledM /\ Un(i).outlierM -> "non-modeled: strange margin change modeled"
    [] OTHER                                   -> "none"

NonModelled ==
  /\ pc = "nonmodelled"
  /\ LET nm == {i \in data : Reason(i) # "none"}
     IN  nmcat' = [i \in nm |-> Reason(i)]
  /\ pc' = "frames"
  /\ UNCHANGED <<sc, data, dvotes, drep, unexp, fR, fN, fX, utable, tables>>

Frames ==
  /\ pc = "frames"
  /\ fR' = RepExpected \ DOMAIN nmcat
  /\ fN' = ({i \in data : ~drep[i]} \ unexp) \ DOMAIN nmcat
  /\ fX' = unexp \cup DOMAIN nmcat                   \* pd.concat([unexpected, non_modeled])
  /\ pc' = "unittable"
  /\ UNCHANGED <<sc, data, dvotes, drep, unexp, nmcat, utable, tables>>

UnitRow(i) ==
  [ state     |-> KeyVal(i, "postal_code"),
    cat       |-> IF i \in unexp THEN "unexpected" ELSE IF i \in DOMAIN nmcat THEN nmcat[i] ELSE "expected",
    reporting |-> IF i \in fR THEN 1 ELSE 0,
    votes     |-> RowVotes(i) ]

UnitTable ==
  /\ pc = "unittable"
  /\ utable' = [i \in fR \cup fN \cup fX |-> UnitRow(i)]
  /\ pc' = "aggregate"
  /\ UNCHANGED <<sc, data, dvotes, drep, unexp, nmcat, fR, fN, fX, tables>>

\* value of a grouped sum, or 0 after the outer join's fillna
Fill0(tbl, g, f(_)) == IF g \in DOMAIN tbl THEN SumOver(tbl[g], f) ELSE 0

LevelTable(level) ==
  LET keys    == AggKeys(level)
      gR      == GroupBy(fR, keys)
      gX      == GroupBy(fX, keys)
      gN      == GroupBy(fN, keys)
      isClass == "county_classification" \in Rng(keys)
      \* _get_reporting_aggregate_votes: classification tables use the reporting frame only,
      \* otherwise reporting and unexpected sums are outer-joined
      votesDom == IF isClass THEN DOMAIN gR ELSE DOMAIN gR \cup DOMAIN gX
      known(g) == Fill0(gR, g, RowVotes) + (IF isClass THEN 0 ELSE Fill0(gX, g, RowVotes))
      nrep(g)  == IF g \in DOMAIN gR THEN Cardinality(gR[g]) ELSE 0
      dom      == votesDom \cup DOMAIN gN               \* outer join with the nonreporting sums
      kn(g)    == IF g \in votesDom THEN known(g) ELSE 0
      Get(t, g) == IF g \in DOMAIN t THEN t[g] ELSE {}
      Members(g) == Get(gR, g) \cup Get(gN, g) \cup (IF isClass THEN {} ELSE Get(gX, g))
  IN  [ rows |-> SortKeys(dom),
        val  |-> [g \in dom |->
                   [ counted   |-> kn(g) + Fill0(gN, g, RowVotes),
                     reporting |-> IF g \in votesDom THEN nrep(g) ELSE 0,
                     pred      |-> kn(g) + Fill0(gN, g, OutPred),
                     lower     |-> [a \in 1..NAlpha |-> kn(g) + Fill0(gN, g, LAMBDA i : OutLower(i, a))],
                     upper     |-> [a \in 1..NAlpha |-> kn(g) + Fill0(gN, g, LAMBDA i : OutUpper(i, a))],
                     hasN      |-> g \in DOMAIN gN,
                     \* bootstrap: predicted two-party turnout and unnormalised margin are sums over the same units
                     nmemb     |-> Cardinality(Members(g)),
                     ptsum     |-> SumOver(Members(g), LAMBDA i : Un(i).pt),
                     pmsum     |-> SumOver(Members(g), LAMBDA i : Un(i).pm) ] ] ]

Aggregate ==
  /\ pc = "aggregate"
  /\ tables' = [l \in Levels |-> LevelTable(l)]
  /\ pc' = "done"
  /\ UNCHANGED <<sc, data, dvotes, drep, unexp, nmcat, fR, fN, fX, utable>>

Next == Merge \/ Policy \/ FindUnexp \/ NonModelled \/ Frames \/ UnitTable \/ Aggregate

InitRest ==
  /\ pc = "merge"
  /\ data = {} /\ dvotes = <<>> /\ drep = <<>> /\ unexp = {} /\ nmcat = <<>>
  /\ fR = {} /\ fN = {} /\ fX = {} /\ utable = <<>> /\ tables = <<>>

---------------------------------------------------------------------------
(* The properties, stated declaratively against the scenario.  They are      *)
(* evaluated in the terminal state (pc = "done").                            *)

Done == pc = "done"
FeedUnits == {i \in Ids : Un(i).inFeed}
FeedVotes == SumOver(FeedUnits, LAMBDA i : Un(i).votes)

\* C01: every unit exactly once, with exactly one category
EveryUnitOnce ==
  Done =>
    /\ fR \cap fN = {} /\ fR \cap fX = {} /\ fN \cap fX = {}
    /\ FeedUnits \subseteq DOMAIN utable                       \* no feed unit disappears
    /\ DOMAIN utable \subseteq FeedUnits \cup {i \in Ids : Un(i).inBase}
    /\ \A i \in DOMAIN utable :
         utable[i].cat \in {"expected", "unexpected", "non-modeled: blocklisted", "non-modeled: zero baseline",
                            "non-modeled: strange turnout factor", "non-modeled: strange turnout factor modeled",
                            "non-modeled: strange margin change modeled"}

\* C01: no vote that arrived in the feed is dropped, double counted or moved
UnitVotesConserved ==
  Done => /\ \A i \in FeedUnits : i \in DOMAIN utable /\ utable[i].votes = Un(i).votes
          /\ \A i \in DOMAIN utable \ FeedUnits : utable[i].votes = 0

\* the group a unit is attributable to at a level: its own state and its own (recovered) sub-key
Attributable(i, level, g) ==
  /\ i \in DOMAIN utable
  /\ Defined(i, AggKeys(level)) /\ GroupKey(i, AggKeys(level)) = g
  /\ ("county_classification" \in Rng(AggKeys(level)) => utable[i].cat = "expected")

Conservation ==
  Done => \A l \in Levels : \A g \in DOMAIN tables[l].val :
            /\ tables[l].val[g].counted
                 = SumOver({i \in DOMAIN utable : Attributable(i, l, g)}, LAMBDA i : utable[i].votes)
            /\ tables[l].val[g].reporting
                 = Cardinality({i \in DOMAIN utable : Attributable(i, l, g) /\ utable[i].reporting = 1})

\* every unit with fully known keys appears in some group of every non-classification level:
\* hence each such level sums to the feed total
LevelTotal(l) == SumOver(DOMAIN tables[l].val, LAMBDA g : tables[l].val[g].counted)
KeysKnown(l) == \A i \in DOMAIN utable : Defined(i, AggKeys(l))
LevelsSumToFeed ==
  Done => \A l \in Levels :
            ("county_classification" \notin Rng(AggKeys(l)) /\ KeysKnown(l)) => LevelTotal(l) = FeedVotes

\* the code guarantees known keys whenever the recovering rule covers the keys the table uses
NoKeyLost ==
  Done => \A l \in Levels : \A i \in fX :
            "county_classification" \notin Rng(AggKeys(l)) => Defined(i, AggKeys(l))

\* reporting column: modelled units at or above the threshold
ReportingIsModelled ==
  Done => \A i \in DOMAIN utable :
            utable[i].reporting = 1 <=> (utable[i].cat = "expected" /\ i \in data /\ drep[i])

\* C09: eligibility.  UsedToFit <=> in baseline, at/above threshold, not blocklisted, baseline # 0,
\* turnout factor strictly inside the limits, not flagged by an enabled outlier model.
Eligibility ==
  Done => \A i \in Ids :
    LET u == Un(i)
        kept == u.inBase /\ (sc.policy = "zero" \/ Complete(i))
        rep  == Complete(i) /\ u.rep
        blk  == Blocklisted(i)
        oT   == EnabledT /\ u.outlierT
        oM   == EnabledM /\ u.outlierM
    IN  /\ (i \in fR <=> (kept /\ rep /\ ~blk /\ ~u.zeroBase /\ ~u.tfStrange /\ ~oT /\ ~oM))
        /\ (i \in fN <=> (kept /\ ~rep /\ ~blk /\ ~u.zeroBase))
        /\ (i \in fX <=> ((u.inFeed /\ ~kept) \/ (kept /\ (blk \/ u.zeroBase \/ (rep /\ (u.tfStrange \/ oT \/ oM))))))
        /\ (i \in fX /\ kept) =>
             utable[i].cat = (IF blk THEN "non-modeled: blocklisted"
                              ELSE IF u.zeroBase THEN "non-modeled: zero baseline"
                              ELSE IF u.tfStrange THEN "non-modeled: strange turnout factor"
                              ELSE IF oT THEN "non-modeled: strange turnout factor modeled"
                              ELSE "non-modeled: strange margin change modeled")

\* C02: the same units in every level; levels agree with each other and with the unit table
UnitPred(i) == IF i \in fN THEN OutPred(i) ELSE utable[i].votes
LevelsAgree ==
  Done => \A l \in Levels :
            ("county_classification" \notin Rng(AggKeys(l)) /\ KeysKnown(l)) =>
               SumOver(DOMAIN tables[l].val, LAMBDA g : tables[l].val[g].pred) = SumOver(DOMAIN utable, UnitPred)

\* C03: counted votes are a floor (given unit outputs that respect their own floor)
UnitFloorsHold == \A i \in Ids : Un(i).pred >= Un(i).votes
                     /\ \A a \in 1..NAlpha : Un(i).lower[a] >= Un(i).votes /\ Un(i).upper[a] >= Un(i).votes
GroupFloors ==
  (Done /\ UnitFloorsHold) => \A l \in Levels : \A g \in DOMAIN tables[l].val :
     LET r == tables[l].val[g]
     IN  /\ r.pred >= r.counted
         /\ \A a \in 1..NAlpha : r.lower[a] >= r.counted /\ r.upper[a] >= r.counted
         /\ (~r.hasN => r.pred = r.counted /\ \A a \in 1..NAlpha : r.lower[a] = r.counted /\ r.upper[a] = r.counted)

=============================================================================
