------------------------- MODULE MC_FeaturizerSpec -------------------------
(* Bounded scenario universe for FeaturizerSpec (C16).  TLC enumerates every split of <= MaxRows rows into
   fitting / prediction / outside rows (in the callers' frame order), every assignment of levels of up to two
   fixed effects to the rows (outside rows may also carry a missing level), every choice of selected levels,
   feature list, centring, states and separate-state list of the chosen families, and - for the interval caller -
   every training prefix.  The code-shaped pipeline of FeaturizerSpec runs on each scenario and the clauses of
   C16 are invariants.  With Export = TRUE terminal states are printed as JSON (scenario + expected matrices)
   for replay into the real Featurizer; SampleMod > 1 keeps a seeded 1-in-SampleMod sample. *)
EXTENDS FeaturizerSpec, Json, IOUtils

CONSTANTS MinRows, MaxRows, MaxOutside,
          L1, L2,            \* levels of the effects "f1", "f2"
          FESeqs,            \* set of effect lists
          FeatSeqs,          \* set of feature lists
          SepSeqs,           \* set of states_for_separate_model lists
          StateSet,          \* postal codes rows may carry
          CenterSet,         \* subset of BOOLEAN
          NoInterceptToo,    \* also the no-intercept mode (only generated without fixed effects)
          Callers,           \* subset of {"pred", "bootstrap", "interval"}
          SelMode,           \* "all" | "few" | "some"
          WithNA,            \* outside rows may carry a missing level
          NAInExpected,      \* expected (fitting / prediction) rows may carry a missing level too
          ExtraSet,          \* set of extra-column lists (numeric frame columns named <fe>_<suffix>)
          Export, SampleMod

FE_none == {<<>>}
FE_1    == {<<"f1">>}
FE_12   == {<<"f1", "f2">>, <<"f2", "f1">>}
FE_all  == {<<"f1">>, <<"f1", "f2">>, <<"f2", "f1">>}
FE_q    == {<<"f1">>, <<"f2", "f1">>}
FE_12a  == {<<"f1", "f2">>}
FE_01   == {<<>>, <<"f1">>}

BNM == "baseline_normalized_margin"
FT_x    == {<<"x1">>}
FT_two  == {<<"x1", BNM>>}
FT_all  == {<<>>, <<"x1">>, <<"x1", BNM>>, <<BNM, "x1">>, <<"x1", BNM, "x2">>}
FT_q    == {<<>>, <<"x1", BNM>>}

SEP_none == {<<>>}
SEP_all  == {<<>>, <<"S1">>, <<"S2">>, <<"S1", "S2">>, <<"S2", "S1">>, <<"S3">>}
SEP_some == {<<>>, <<"S2">>, <<"S2", "S1">>}
SEP_q    == {<<>>, <<"S2">>, <<"S2", "S1">>, <<"S3">>}

EX_none == {<<>>}
\* one numeric column named f1_zz; its values by row index (positive on the first row, which is a fitting row)
EX_f1zz == {<<[f |-> "f1", l |-> "zz", v |-> <<1, 0, 2, 0, 1, 0>>]>>}

\* pandas sorts level strings; any fixed total order consistent with Python's string order will do
Order == <<"a", "k", "m", "other", "p", "q", "r", "z">>

LevelsOf(fe) == IF fe = "f1" THEN L1 ELSE L2
SelAll == [all |-> TRUE, keep |-> <<>>]
SelChoices(fe) ==
  IF SelMode = "all" THEN {SelAll}
  ELSE IF fe = "f1"
       THEN {SelAll, [all |-> FALSE, keep |-> <<"a">>], [all |-> FALSE, keep |-> <<"z">>]}
            \cup (IF SelMode = "some" THEN {[all |-> FALSE, keep |-> <<"a", "z">>], [all |-> FALSE, keep |-> <<>>]} ELSE {})
       ELSE {SelAll, [all |-> FALSE, keep |-> <<"q">>]}
SelUniverse == SelChoices("f1") \cup SelChoices("f2")
SelRecs(fes) == {s \in [Rng(fes) -> SelUniverse] : \A fe \in Rng(fes) : s[fe] \in SelChoices(fe)}

AllLevels == L1 \cup L2 \cup {NA}
LevRecs(fes, na) == {g \in [Rng(fes) -> AllLevels] :
                       \A fe \in Rng(fes) : g[fe] \in LevelsOf(fe) \cup (IF na THEN {NA} ELSE {})}

\* raw feature values: distinct per row, so that a row of a matrix identifies the frame row it came from
XVal(f, r) == CASE f = "x1" -> CASE r = 1 -> 1 [] r = 2 -> 2 [] r = 3 -> 4 [] r = 4 -> 8 [] r = 5 -> 16 [] OTHER -> 32
                [] f = BNM  -> r * r - 6
                [] OTHER    -> 3 * r
MinOf(a, b) == IF a < b THEN a ELSE b

Init ==
  /\ \E n \in MinRows..MaxRows : \E nF \in 1..n : \E nO \in 0..MinOf(MaxOutside, n - nF) :
     \E fes \in FESeqs, feats \in FeatSeqs, sep \in SepSeqs, ctr \in CenterSet, caller \in Callers, extra \in ExtraSet :
     \E icpt \in (IF fes = <<>> /\ NoInterceptToo THEN BOOLEAN ELSE {TRUE}) :
     \E sel \in SelRecs(fes) :
     \E lvE \in [1..(n - nO) -> LevRecs(fes, NAInExpected)] :
     \E lvO \in [1..nO -> LevRecs(fes, WithNA)] :
     \E st \in [1..n -> StateSet] :
     \E t \in (IF caller = "interval" THEN 1..nF ELSE {0}) :
       /\ caller = "interval" => nO = 0
       \* precondition: every effect shows at least one level on the fitting rows (all missing -> pandas produces no dummy
       \* column for the effect at all and the Featurizer raises; not a case any caller can be in)
       /\ \A fe \in Rng(fes) : \E r \in 1..nF : lvE[r][fe] # NA
       /\ sc = [ rows |-> [r \in 1..n |->
                             [ rep |-> r <= nF,
                               exp |-> r <= n - nO,
                               st  |-> st[r],
                               lev |-> IF r <= n - nO THEN lvE[r] ELSE lvO[r - (n - nO)],
                               x   |-> [f \in Rng(feats) |-> Q(XVal(f, r))] ]],
                 fes |-> fes, sel |-> sel, feats |-> feats, intercept |-> icpt, center |-> ctr, sep |-> sep,
                 order |-> Order, extra |-> extra, caller |-> caller,
                 slices |-> IF caller = "interval"
                            THEN << [kind |-> "fit", rows |-> IntSeq(1, t)],
                                    [kind |-> "holdout", rows |-> IntSeq(t + 1, nF)],
                                    [kind |-> "holdout", rows |-> IntSeq(nF + 1, n)] >>
                            ELSE << [kind |-> "fit", rows |-> IntSeq(1, nF)],
                                    [kind |-> "holdout", rows |-> IntSeq(nF + 1, n - nO)] >> ]
  /\ InitRest

Spec == Init /\ [][Next]_vars

\* the callers' slicing discipline is a fact about every generated scenario
DisciplineHolds == SliceDiscipline

---------------------------------------------------------------------------
(* export of terminal states for replay into the implementation *)
ExpectedJson == [ complete |-> complete, active |-> active, icol |-> icol, xall |-> xall, mats |-> mats, pc |-> pc ]
Seed == IF "VERIF_SEED" \in DOMAIN IOEnv THEN atoi(IOEnv.VERIF_SEED) ELSE 0
\* a cheap fingerprint of the scenario: mixed sums of row indices, level ranks, states and options
Finger ==
  LET rowv(r) == (IF Row(r).rep THEN 1 ELSE 0) + (IF Row(r).exp THEN 2 ELSE 0)
                 + FoldSet(LAMBDA fe, acc : acc * 7 + (IF Row(r).lev[fe] = NA THEN 0 ELSE Rank(Row(r).lev[fe])), 0, Fes)
                 + (IF Row(r).st = "S1" THEN 0 ELSE 5)
  IN  FoldSet(LAMBDA r, acc : (acc * 31 + rowv(r) * (r + 2)) % 1000003, 17, Rows)
      + Len(sc.fes) * 3 + Len(sc.feats) * 5 + Len(sc.sep) * 11 + (IF sc.center THEN 13 ELSE 0)
      + Len(sc.slices[1].rows) * 19
      + FoldSet(LAMBDA fe, acc : acc + Len(sc.sel[fe].keep) * 23 + (IF sc.sel[fe].all THEN 29 ELSE 0), 0, Fes)
Sampled == SampleMod = 1 \/ (Finger + Seed) % SampleMod = 0
ExportDone == (Export /\ pc \in {"done", "raised"} /\ Sampled)
                 => PrintT(<<"SCEN", ToJson([sc |-> sc, expect |-> ExpectedJson])>>)

\* witnesses against vacuity (negated; a "violation" shows the antecedent is reachable) - used by the self-test only
NoUnseenHoldoutLevel ==
  Done => \A a \in DOMAIN mats : mats[a].kind = "holdout" => \A i \in DOMAIN mats[a].rows : \A fe \in Fes :
            Pooled(Row(mats[a].rows[i]).lev[fe], fe) \in FitLevels(fe)
=============================================================================
