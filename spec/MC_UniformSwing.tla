--------------------------- MODULE MC_UniformSwing ---------------------------
(* Bounded scenario universe for UniformSwing: every multiset of RepSizes reporting units drawn from the unit types
   below, a fixed list of nonreporting units.  last = baseline + 1 is a power of two for reporting units, so that
   residuals (and hence the real regression's data) are dyadic; counted votes stay inside the default turnout-factor
   band (0.5, 2) of CombinedDataHandler so that every reporting unit is modelled. *)
EXTENDS UniformSwing, Json

CONSTANTS RepSizes, Export

\* (baseline, counted): baseline + 1 in {2, 4, 8, 16, 32}
Types == << [b |-> 1, c |-> 1],
            [b |-> 3, c |-> 2], [b |-> 3, c |-> 3], [b |-> 3, c |-> 4], [b |-> 3, c |-> 5],
            [b |-> 7, c |-> 4], [b |-> 7, c |-> 6], [b |-> 7, c |-> 7], [b |-> 7, c |-> 8], [b |-> 7, c |-> 9],
            [b |-> 7, c |-> 10], [b |-> 7, c |-> 12],
            [b |-> 15, c |-> 10], [b |-> 15, c |-> 14], [b |-> 15, c |-> 16], [b |-> 15, c |-> 18],
            [b |-> 15, c |-> 24],
            [b |-> 31, c |-> 24], [b |-> 31, c |-> 36] >>
NTypes == Len(Types)
MaxRep == CHOOSE m \in RepSizes : \A x \in RepSizes : x <= m
MSets[k \in 0..MaxRep] ==
  IF k = 0 THEN {<<>>}
  ELSE UNION {{Append(s, t) : t \in (IF k = 1 THEN 1 ELSE s[k - 1])..NTypes} : s \in MSets[k - 1]}

\* nonreporting units (baseline, partial count): small and large, floor active / inactive, non power-of-two
NON == << [b |-> 1, partial |-> 0], [b |-> 7, partial |-> 3], [b |-> 15, partial |-> 40], [b |-> 3, partial |-> 1],
          [b |-> 31, partial |-> 0], [b |-> 6, partial |-> 2], [b |-> 99, partial |-> 57] >>

Init ==
  /\ \E n \in RepSizes : \E ms \in MSets[n] :
       sc = [rep |-> [i \in 1..n |-> Types[ms[i]]], non |-> NON]
  /\ InitRest
Spec == Init /\ [][Next]_vars

ExportDone ==
  (Export /\ pc = "done") =>
    PrintT(<<"SCEN", ToJson([rep |-> sc.rep, non |-> sc.non, m |-> st.m, unit |-> st.unit, preds |-> st.preds])>>)
ExportExcluded == (Export /\ pc = "excluded") => PrintT(<<"EXCL", ToJson([rep |-> sc.rep])>>)
=============================================================================
