---------------------------- MODULE MC_RaceCalls ----------------------------
(* The whole decision table for one contest (prediction x error quantiles x called x stopped) and the
   list-shape cases for two contests (overlapping lists, unknown names).  Terminal states are exported. *)
EXTENDS RaceCalls, Json
CONSTANTS PVals, QVals, Names, Export

PV_Full == {-8, -6, -5, -4, -1, 0, 1, 4, 5, 6, 8}
QV_Full == {-12, -7, -5, -2, -1, 0, 1, 2, 5, 7, 12}
PV_Small == {-6, 6}
QV_Small == {-7, 7}

Init ==
  /\ \E p \in [Contests -> PVals], a \in [Contests -> QVals], b \in [Contests -> QVals] :
     \E l \in SUBSET Names, r \in SUBSET Names, s \in SUBSET Names :
       /\ \A c \in Contests : b[c] <= a[c]
       /\ sc = [p |-> p, a |-> a, b |-> b, lhs |-> l, rhs |-> r, stop |-> s]
  /\ RInitRest
Spec == Init /\ [][RNext]_rvars

ExportDone ==
  (Export /\ pc \in {"done", "error"}) =>
     PrintT(<<"SCEN", ToJson([sc |-> sc, error |-> (pc = "error"),
                              pred |-> IF pc = "done" THEN pred ELSE [c \in Contests |-> 0],
                              lower |-> IF pc = "done" THEN lower ELSE [c \in Contests |-> 0],
                              upper |-> IF pc = "done" THEN upper ELSE [c \in Contests |-> 0]])>>)
=============================================================================
