--------------------------- MODULE MC_ClientLoops ---------------------------
(* Bounded universe for ClientLoops: TLC enumerates every request - estimator, office kind, every non-empty
   sequence without repetition of at most MaxEsts vote-count estimands (the bootstrap has `margin` only), of
   interval levels and of aggregate levels - as an initial state, runs the loop nest and checks the four clauses in
   every state.  With Export = TRUE the terminal state of every request is printed (request + the columns of every
   returned table + the cells) for replay into the real client. *)
EXTENDS ClientLoops, Json

CONSTANTS EstimatorSet, DistrictKinds, EstimandSet, AlphaSet, AggSet, MaxEsts, MaxAlphas, MaxAggs, Export

ThreeEstimators == {"nonparametric", "gaussian", "bootstrap"}
GaussianOnly == {"gaussian"}
NonparametricOnly == {"nonparametric"}
BootstrapOnly == {"bootstrap"}
Conformal2 == {"nonparametric", "gaussian"}
VoteCounts == {"turnout", "dem", "gop"}
TwoCounts == {"turnout", "dem"}
Alphas3 == {"0.5", "0.7", "0.9"}
\* two levels within the same percent, and a level that is not a "round" float (0.7 + 0.1 in binary floating point)
Alphas5 == {"0.5", "0.7", "0.9", "0.909", "0.7999999999999999"}
\* (0.904 and 0.9 agree to two decimals: a level key rounded to hundredths would merge them - seeded change C13_I)
Alphas6 == Alphas5 \cup {"0.904"}
Alphas2 == {"0.7", "0.9"}
Aggs5 == {"postal_code", "county_fips", "county_classification", "district", "unit"}
Aggs4 == {"postal_code", "county_fips", "county_classification", "unit"}
Aggs3 == {"postal_code", "county_fips", "unit"}
BothKinds == {FALSE, TRUE}
StateOffice == {FALSE}
DistrictOffice == {TRUE}

\* non-empty sequences without repetition over S, of length <= n
Arrangements(S, n) ==
  UNION {{s \in [1..k -> S] : \A i, j \in 1..k : i # j => s[i] # s[j]} : k \in 1..n}

\* the request is chosen in three stages (estimator / office kind / estimands, then interval levels, then aggregate
\* levels) so that TLC's simulator can draw a random request from the large universe without enumerating it
Blank == [estimator |-> "-", district |-> FALSE, ests |-> <<>>, alphas |-> <<>>, aggs |-> <<>>]
Init ==
  /\ req = Blank /\ pc = "chooseA" /\ ei = 1 /\ ai = 1 /\ gi = 1
  /\ gcache = [s \in SlotNames |-> NoWrite] /\ npLast = NoWrite /\ uiv = <<>> /\ frame = {} /\ unitData = <<>>
  /\ estimates = <<>> /\ cells = <<>> /\ tables = <<>>
Keep == UNCHANGED <<ei, ai, gi, gcache, npLast, uiv, frame, unitData, estimates, cells, tables>>
ChooseA ==
  /\ pc = "chooseA" /\ pc' = "chooseB" /\ Keep
  /\ \E est \in EstimatorSet, d \in DistrictKinds :
     \E es \in (IF est = "bootstrap" THEN {<<"margin">>} ELSE Arrangements(EstimandSet, MaxEsts)) :
       req' = [req EXCEPT !.estimator = est, !.district = d, !.ests = es]
ChooseB ==
  /\ pc = "chooseB" /\ pc' = "chooseC" /\ Keep
  /\ \E als \in Arrangements(AlphaSet, MaxAlphas) : req' = [req EXCEPT !.alphas = als]
ChooseC ==
  /\ pc = "chooseC"
  /\ \E ags \in Arrangements(AggSet, MaxAggs) : LStart([req EXCEPT !.aggs = ags])

Next == ChooseA \/ ChooseB \/ ChooseC \/ LNext
Spec == Init /\ [][Next]_lvars

ExportDone ==
  (Export /\ Done) =>
     PrintT(<<"SCEN", ToJson([req |-> req, ncells |-> Cardinality(DOMAIN cells),
                              ncols |-> [l \in DOMAIN tables |-> Len(tables[l])]])>>)
=============================================================================
