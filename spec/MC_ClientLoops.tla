--------------------------- MODULE MC_ClientLoops ---------------------------
(* Bounded universe for ClientLoops: TLC enumerates every request - estimator, office kind, every non-empty
   sequence without repetition of at most MaxEsts vote-count estimands (the bootstrap has `margin` only), of
   interval levels and of aggregate levels - as an initial state, runs the loop nest and checks the four clauses in
   every state.  With Export = TRUE the terminal state of every request is printed (request + the columns of every
   returned table + the cells) for replay into the real client. *)
EXTENDS ClientLoops, Json

CONSTANTS EstimatorSet, DistrictKinds, EstimandSet, AlphaSet, AggSet, MaxEsts, MaxAlphas, MaxAggs, Export

ThreeEstimators == {"nonparametric", "gaussian", "bootstrap"}
GaussianOnly == {"gaussian"}
Conformal2 == {"nonparametric", "gaussian"}
VoteCounts == {"turnout", "dem", "gop"}
TwoCounts == {"turnout", "dem"}
Alphas3 == {"0.5", "0.7", "0.9"}
Alphas2 == {"0.7", "0.9"}
Aggs5 == {"postal_code", "county_fips", "county_classification", "district", "unit"}
Aggs4 == {"postal_code", "county_fips", "county_classification", "unit"}
Aggs3 == {"postal_code", "county_fips", "unit"}
BothKinds == {FALSE, TRUE}
StateOffice == {FALSE}
DistrictOffice == {TRUE}

\* non-empty sequences without repetition over S, of length <= n
Arrangements(S, n) ==
  UNION {{s \in [1..k -> S] : \A i, j \in 1..k : i # j => s[i] # s[j]} : k \in 1..n}

Init ==
  /\ \E est \in EstimatorSet, d \in DistrictKinds :
     \E es \in (IF est = "bootstrap" THEN {<<"margin">>} ELSE Arrangements(EstimandSet, MaxEsts)) :
     \E als \in Arrangements(AlphaSet, MaxAlphas), ags \in Arrangements(AggSet, MaxAggs) :
       req = [estimator |-> est, district |-> d, ests |-> es, alphas |-> als, aggs |-> ags]
  /\ LInitRest

Spec == Init /\ [][LNext]_lvars

CellList == [c \in DOMAIN cells |-> TRUE]
ExportDone ==
  (Export /\ Done) =>
     PrintT(<<"SCEN", ToJson([req |-> req, tables |-> tables, ncells |-> Cardinality(DOMAIN cells)])>>)
=============================================================================
