SPECIFICATION Spec
CONSTANTS
  MaxV = 2
  MaxTurnout = 3
  PevChoices <- Pev_quick
  AllowZeroFinal = FALSE
  Export = FALSE
  IntTruncation = TRUE
  MaxDist = 5
INVARIANT Convex
CHECK_DEADLOCK FALSE
