SPECIFICATION Spec
CONSTANTS
  MaxV = 2
  MaxTurnout = 3
  PevChoices <- Pev_quick
  Export = FALSE
  IntTruncation = TRUE
  MonotoneOnRescaled = FALSE
  MaxDist = 5
INVARIANT Convex
CHECK_DEADLOCK FALSE
