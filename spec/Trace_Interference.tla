-------------------------- MODULE Trace_Interference --------------------------
(* C10, code -> spec.  Each trace is a PAIR of real runs of the same election that differ only in the counted votes
   of one unit `u` which is outstanding (below the threshold, kept below) or excluded (blocklisted, zero baseline,
   unexpected).  The ledger pipeline of Ledger decides, from the scenario, the frame of every unit and the groups u
   is attributable to; every row of every returned table that is neither u's own row nor a group containing u must
   carry the same bit-level token in both runs.  Record kind "historical": two historical evaluations that differ
   only in the hidden historical results of not-yet-reporting units must return identical estimates. *)
EXTENDS Ledger, Json, IOUtils

VARIABLES tid
Traces == JsonDeserialize(IOEnv.TRACE_FILE)
NT == Len(Traces)
T == Traces[tid]
Est == sc.estimator

Dummy == [ extraRep |-> 0, optT |-> FALSE, optM |-> FALSE, isMargin |-> FALSE, policy |-> "drop", districtOffice |-> FALSE,
           districtGut |-> FALSE, levels |-> <<>>, blockStates |-> <<>>, nalpha |-> 0, order |-> <<>>, units |-> <<>>,
           estimator |-> "none" ]
ScOf(k) == IF Traces[k].kind = "pair" THEN Traces[k].sc ELSE Dummy

TInit == tid = 1 /\ sc = ScOf(1) /\ InitRest
TNext ==
  \/ (Next /\ UNCHANGED tid)
  \/ /\ pc = "done" /\ tid < NT
     /\ tid' = tid + 1 /\ sc' = ScOf(tid + 1) /\ pc' = "merge"
     /\ data' = {} /\ dvotes' = <<>> /\ drep' = <<>> /\ unexp' = {} /\ nmcat' = <<>>
     /\ fR' = {} /\ fN' = {} /\ fX' = {} /\ utable' = <<>> /\ tables' = <<>>
TSpec == TInit /\ [][TNext]_<<vars, tid>>
Finished == (pc = "done" /\ tid = NT) => TLCSet(1, TRUE)
PostOK == TLCGet(1) = TRUE
Mark(name) == PrintT(<<"FAIL", ToJson([tid |-> tid, clause |-> name])>>)
Chk(name, cond) == cond \/ (Mark(name) /\ FALSE)

U == T.u
PairOK ==
  (Done /\ T.kind = "pair") =>
    \* the perturbed unit is outstanding or excluded according to the specification's own split
    /\ Chk("perturbed_unit_is_outstanding_or_excluded", U \in fN \cup fX)
    \* information flow at its source: the outlier detection models read only the units still in the running - a unit
    \* a hard rule has set aside (and the perturbed unit is one of those, or outstanding) is not in their read set
    /\ (EnabledT => Chk("turnout_outlier_fit_reads_excluded_unit", {T.obs1.fitT[k] : k \in DOMAIN T.obs1.fitT} \subseteq OutlierCandidates))
    /\ (EnabledM => Chk("margin_outlier_fit_reads_excluded_unit", {T.obs1.fitM[k] : k \in DOMAIN T.obs1.fitM} \subseteq OutlierCandidates))
    \* both runs completed and returned the same rows
    /\ \A i \in Ids : Chk("same_unit_rows", T.obs0.utable[i].present = T.obs1.utable[i].present)
    \* every other unit: bit-for-bit identical row
    /\ \A i \in Ids \ {U} : Chk("other_unit_unchanged", T.obs0.utable[i].tok = T.obs1.utable[i].tok)
    /\ \A l \in Levels :
         /\ Chk("same_group_rows", Len(T.obs0.tables[l]) = Len(T.obs1.tables[l]))
         /\ \A k \in 1..Len(T.obs1.tables[l]) : k <= Len(T.obs0.tables[l]) =>
              LET a == T.obs0.tables[l][k]  b == T.obs1.tables[l][k] IN
              /\ Chk("same_group_keys", a.key = b.key)
              /\ (~Attributable(U, l, b.key)) => Chk("other_group_unchanged", a.tok = b.tok)
              \* an excluded / unexpected unit only adds its votes: its groups move by exactly the difference
              /\ (Attributable(U, l, b.key) /\ U \in fX /\ Est # "bootstrap") =>
                   /\ Chk("group_counted_moves_by_delta", b.counted - a.counted = T.delta)
                   /\ Chk("group_pred_moves_by_delta", b.pred - a.pred = T.delta)
                   /\ (Est = "nonparametric" => \A x \in 1..NAlpha :
                         Chk("group_bounds_move_by_delta", b.lower[x] - a.lower[x] = T.delta /\ b.upper[x] - a.upper[x] = T.delta))
              \* an outstanding unit changes its groups' counted votes by exactly the difference of its partial count
              /\ (Attributable(U, l, b.key) /\ U \in fN /\ Est # "bootstrap") =>
                   Chk("group_counted_moves_by_delta", b.counted - a.counted = T.delta)
HistoricalOK ==
  T.kind = "historical" =>
    /\ Chk("historical_run_completed", T.ok)
    /\ Chk("hidden_historical_results_do_not_matter", T.tok0 = T.tok1)
    /\ Chk("visible_historical_results_do_matter", T.tok0 # T.tok2)
=============================================================================
