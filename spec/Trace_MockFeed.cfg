SPECIFICATION TSpec
INVARIANT ReportOK
INVARIANT PercentOK
CONSTRAINT Finished
POSTCONDITION PostOK
CHECK_DEADLOCK FALSE
