SPECIFICATION Spec
CONSTANTS
  CSet = {"AA", "BB"}
  KeepContestLevel = TRUE
  RestrictToWinners = TRUE
  PVals <- PV_Small
  DVals <- DV_One
  Bases = {10}
  Histories <- H_All
  Modes = {TRUE, FALSE}
  SizeOffsets <- SO_All
  Export = FALSE
INVARIANT Ordered
INVARIANT Bounded
INVARIANT PredIsWinners
INVARIANT CalledCertain
INVARIANT HistoryIndependent
INVARIANT SizeChecked
CHECK_DEADLOCK FALSE
