SPECIFICATION TSpec
INVARIANT TEligibility
INVARIANT TReportingIsModelled
INVARIANT ObsUnitTable
INVARIANT ObsOutlierCalls
CONSTRAINT Finished
POSTCONDITION PostOK
CHECK_DEADLOCK FALSE
