---------------------------- MODULE UniformSwing ----------------------------
(***************************************************************************)
(* The covariate-free nonparametric model (DESIGN 5/C05): with             *)
(* features = [] and fixed_effects = {} the median regression has an       *)
(* intercept only, so every nonreporting unit is predicted as              *)
(*     baseline' * (1 + m)        baseline' = previous result + 1          *)
(* with one common m = the baseline'-weighted median of the relative       *)
(* change of the modelled reporting units; rounded, floored at the partial *)
(* count.  One action per code step:                                       *)
(*   Estimandize   Estimandizer.add_estimand_baselines:                    *)
(*                 last_election_results = baseline + 1                    *)
(*   Residualise   CombinedDataHandler.get_units:                          *)
(*                 residual = (results - last) / last                      *)
(*   Median        ConformalElectionModel.get_unit_predictions: quantile   *)
(*                 regression tau = 1/2, weights = last, intercept only    *)
(*                 (modelled as the sorted weighted scan; MedianIsMinimiser*)
(*                 ties the scan to the regression's objective)            *)
(*   Predict       preds * last + last, max with results, round            *)
(*                                                                         *)
(* sc = [rep : Seq([b, c]), non : Seq([b, partial])]  b = baseline count,  *)
(* c = counted votes of a fully reporting unit.  Rationals are <<num,den>>.*)
(* Scenarios whose weighted median is not unique end in pc = "excluded"    *)
(* (the property speaks only about a unique median).                       *)
(***************************************************************************)
EXTENDS Integers, Sequences, FiniteSets, TLC

VARIABLES pc, sc, st
vars == <<pc, sc, st>>

Abs(a) == IF a >= 0 THEN a ELSE 0 - a
MinOfSet(S) == CHOOSE m \in S : \A x \in S : m <= x
RECURSIVE SumSeq(_, _)
SumSeq(s, k) == IF k = 0 THEN 0 ELSE s[k] + SumSeq(s, k - 1)

NRep == Len(sc.rep)
NNon == Len(sc.non)
RepIdx == 1..NRep
NonIdx == 1..NNon

\* ---- Estimandizer: last_election_results_<estimand> = baseline_<pointer> + 1
Estimandize ==
  /\ pc = "estimandize"
  /\ st' = [st EXCEPT !.last = [i \in RepIdx |-> sc.rep[i].b + 1], !.lastNon = [j \in NonIdx |-> sc.non[j].b + 1]]
  /\ pc' = "residualise"
  /\ UNCHANGED sc

\* ---- get_units: residuals = (results - last_election_results) / last_election_results
Residualise ==
  /\ pc = "residualise"
  /\ st' = [st EXCEPT !.res = [i \in RepIdx |-> <<sc.rep[i].c - st.last[i], st.last[i]>>]]
  /\ pc' = "median"
  /\ UNCHANGED sc

ResLess(x, y) == x[1] * y[2] < y[1] * x[2]          \* positive denominators
ResEq(x, y)   == x[1] * y[2] = y[1] * x[2]
ResLE(x, y)   == x[1] * y[2] <= y[1] * x[2]

WTot == SumSeq(st.last, NRep)
\* weight of the units whose residual is <= (resp. <) that of unit i
WeightUpTo(i)  == SumSeq([k \in RepIdx |-> IF ResLE(st.res[k], st.res[i]) THEN st.last[k] ELSE 0], NRep)
WeightBelow(i) == SumSeq([k \in RepIdx |-> IF ResLess(st.res[k], st.res[i]) THEN st.last[k] ELSE 0], NRep)

\* the minimisers of the weighted absolute loss form an interval; it is a single point iff no cumulative weight
\* (taken at the end of a run of equal residuals) is exactly half the total
MedianUnique == \A i \in RepIdx : 2 * WeightUpTo(i) # WTot

\* ---- the regression: sorted scan, first residual at which the cumulative weight passes half the total
Median ==
  /\ pc = "median"
  /\ IF MedianUnique
     THEN LET k == CHOOSE i \in RepIdx :
                     /\ 2 * WeightUpTo(i) > WTot
                     /\ \A j \in RepIdx : 2 * WeightUpTo(j) > WTot => ResLE(st.res[i], st.res[j])
          IN  /\ st' = [st EXCEPT !.m = st.res[k], !.unit = k]
              /\ pc' = "predict"
     ELSE /\ st' = st
          /\ pc' = "excluded"
  /\ UNCHANGED sc

\* rounding of N/D (D > 0): one answer off a tie; on an exact half either neighbour (the regression's intercept is
\* the solver's double, not the exact rational)
RoundCandidates(N, D) ==
  LET up == (2 * N + D) \div (2 * D) IN
  IF (2 * N + D) % (2 * D) # 0 THEN {up} ELSE {up - 1, up}

\* ---- preds * last + last, np.maximum(., results), round
PredCandidates(j) ==
  LET N == st.lastNon[j] * (st.m[1] + st.m[2])       \* last_j * (1 + m) = N / D
      D == st.m[2]
  IN  IF N <= sc.non[j].partial * D THEN {sc.non[j].partial} ELSE RoundCandidates(N, D)

Predict ==
  /\ pc = "predict"
  /\ st' = [st EXCEPT !.preds = [j \in NonIdx |-> PredCandidates(j)]]
  /\ pc' = "done"
  /\ UNCHANGED sc

Next == Estimandize \/ Residualise \/ Median \/ Predict
InitRest == pc = "estimandize" /\ st = [last |-> <<>>, lastNon |-> <<>>, res |-> <<>>, m |-> <<0, 1>>, unit |-> 0, preds |-> <<>>]

---------------------------------------------------------------------------
(* the property, declaratively *)
HasMedian == pc \in {"predict", "done"}

\* weighted absolute loss of the intercept mN/mD, times mD:  sum_i last_i * |r_i - m|
LossTimesDen(mN, mD) ==
  SumSeq([i \in RepIdx |-> Abs(st.res[i][1] * mD - st.last[i] * mN)], NRep)
\* m minimises the regression objective: the loss is convex and piecewise linear with kinks at the residuals, so it
\* suffices to compare with every residual; uniqueness makes the comparison strict
MedianIsMinimiser ==
  HasMedian =>
    \A i \in RepIdx :
      LET r == st.res[i] IN
      IF ResEq(r, st.m) THEN TRUE
      ELSE LossTimesDen(st.m[1], st.m[2]) * r[2] < LossTimesDen(r[1], r[2]) * st.m[2]
\* m is *the baseline'-weighted median* of the relative change (counted - baseline') / baseline'
MedianIsWeightedMedian ==
  HasMedian =>
    /\ \E i \in RepIdx : st.m = <<sc.rep[i].c - (sc.rep[i].b + 1), sc.rep[i].b + 1>>
    /\ 2 * SumSeq([k \in RepIdx |-> IF ResLess(st.res[k], st.m) THEN sc.rep[k].b + 1 ELSE 0], NRep) < WTot
    /\ 2 * SumSeq([k \in RepIdx |-> IF ResLess(st.m, st.res[k]) THEN sc.rep[k].b + 1 ELSE 0], NRep) < WTot
\* closed form: the common factor 1 + m is counted / baseline' of the median unit
CommonFactor ==
  pc = "done" =>
    LET k == st.unit IN
    \A j \in NonIdx : \A v \in st.preds[j] :
      \/ v = sc.non[j].partial /\ (sc.non[j].b + 1) * sc.rep[k].c <= sc.non[j].partial * (sc.rep[k].b + 1)
      \/ /\ 2 * Abs(v * (sc.rep[k].b + 1) - (sc.non[j].b + 1) * sc.rep[k].c) <= sc.rep[k].b + 1
         /\ (sc.non[j].b + 1) * sc.rep[k].c > sc.non[j].partial * (sc.rep[k].b + 1)
FloorAtPartial == pc = "done" => \A j \in NonIdx : \A v \in st.preds[j] : v >= sc.non[j].partial
\* exclusion is exactly non-uniqueness: some threshold splits the weight into two exact halves
ExcludedIffNotUnique ==
  (pc \in {"excluded", "predict", "done"}) =>
    ((pc = "excluded") <=> \E i \in RepIdx : 2 * WeightUpTo(i) = WTot)
=============================================================================
