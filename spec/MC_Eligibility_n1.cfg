SPECIFICATION Spec
CONSTANTS
  NUnits = 1
  Policies = {"drop", "zero"}
  Limits = {1, 2, 3}
  Thresholds = {90, 100}
  Margins = {FALSE, TRUE}
  FeedT = {0, 1, 2, 3, 4, 6, 7, 8, 9, 16}
  BaseT = {0, 1, 4}
  Pevs = {0, 89, 90, 99, 100, 110}
  Export = TRUE
CONSTRAINT ExportDone
INVARIANT EveryUnitOnce
INVARIANT Eligibility
INVARIANT NumEligibility
INVARIANT ReportingIsModelled
CHECK_DEADLOCK FALSE
