SPECIFICATION Spec
CONSTANTS
  Matching = "identity"
  MinRows = 1
  MaxRows = 3
  MaxOutside = 1
  L1 = {"a", "z"}
  L2 = {"p", "q"}
  FESeqs <- FE_01
  FeatSeqs <- FT_q
  SepSeqs <- SEP_q
  StateSet = {"S1", "S2"}
  CenterSet = {FALSE, TRUE}
  NoInterceptToo = TRUE
  Callers = {"bootstrap"}
  SelMode = "all"
  WithNA = FALSE
  NAInExpected = FALSE
  ExtraSet <- EX_none
  Export = TRUE
  SampleMod = 2
INVARIANT NoRaise
INVARIANT DisciplineHolds
INVARIANT SameColumns
INVARIANT NonConstant
INVARIANT OneAbsorbed
INVARIANT SeenLevel
INVARIANT UnseenLevel
INVARIANT Centered
INVARIANT OtherPooled
INVARIANT StateCopiesOnlyReporting
CONSTRAINT ExportDone
CHECK_DEADLOCK FALSE
