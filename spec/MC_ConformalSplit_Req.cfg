SPECIFICATION Spec
CONSTANTS
  GuardTrain = TRUE
CONSTRAINT ExportDone
INVARIANT MinimumIsCeil
INVARIANT GateExact
INVARIANT DuplicatesRejected
INVARIANT Completes
INVARIANT TrainAtLeastOne
INVARIANT CalAtLeastOne
INVARIANT SplitPartitions
INVARIANT QuantileLevelBelowOne
INVARIANT RankExists
CHECK_DEADLOCK FALSE
