-------------------------- MODULE Trace_LedgerDelta --------------------------
(* C11, code -> spec: each trace is a PAIR of real runs of the same election, without (obs0) and with (obs1)
   one extra unexpected feed row.  The two-phase pipeline of LedgerDelta is executed on the recorded scenario;
   both returned sets of tables must equal the recomputed ledgers (so the attributable groups moved by exactly
   the unit's votes and a new group appeared where needed), and every row the unit is not attributable to must
   carry the same token (a digest of every number on that row) in both runs: bit-for-bit unchanged. *)
EXTENDS LedgerDelta, Json, IOUtils

VARIABLES tid
Traces == JsonDeserialize(IOEnv.TRACE_FILE)
NT == Len(Traces)
T == Traces[tid]
Obs == IF phase = 1 THEN T.obs0 ELSE T.obs1
Est == sc.estimator

TInit == tid = 1 /\ sc = Traces[1].sc0 /\ extra = Traces[1].extra /\ phase = 1 /\ prev = <<>> /\ InitRest
TNext ==
  \/ (DNext /\ UNCHANGED tid)
  \/ /\ pc = "done" /\ phase = 2 /\ tid < NT
     /\ tid' = tid + 1
     /\ sc' = Traces[tid + 1].sc0 /\ extra' = Traces[tid + 1].extra /\ phase' = 1 /\ prev' = <<>>
     /\ pc' = "merge"
     /\ data' = {} /\ dvotes' = <<>> /\ drep' = <<>> /\ unexp' = {} /\ nmcat' = <<>>
     /\ fR' = {} /\ fN' = {} /\ fX' = {} /\ utable' = <<>> /\ tables' = <<>>
TSpec == TInit /\ [][TNext]_<<dvars, tid>>

Finished == (pc = "done" /\ phase = 2 /\ tid = NT) => TLCSet(1, TRUE)
PostOK == TLCGet(1) = TRUE

Mark(name) == PrintT(<<"FAIL", ToJson([tid |-> tid, clause |-> name, phase |-> phase])>>)
Chk(name, cond) == cond \/ (Mark(name) /\ FALSE)
Abs(x) == IF x < 0 THEN -x ELSE x

\* both runs return the ledger the specification computes (phase 2: including the Delta, see LedgerDelta)
ObsUnits ==
  Done => \A i \in Ids :
    LET o == Obs.utable[i] IN
    IF i \in DOMAIN utable
    THEN /\ Chk("unit_row_present", o.present) /\ Chk("unit_once", o.count = 1)
         /\ Chk("unit_state", o.state = utable[i].state) /\ Chk("unit_category", o.cat = utable[i].cat)
         /\ Chk("unit_reporting", o.reporting = utable[i].reporting) /\ Chk("unit_votes", o.votes = utable[i].votes)
    ELSE Chk("unit_row_absent", ~o.present)
HasRowD(l, g) == \E k \in 1..Len(Obs.tables[l]) : Obs.tables[l][k].key = g
RowForD(l, g) == Obs.tables[l][CHOOSE k \in 1..Len(Obs.tables[l]) : Obs.tables[l][k].key = g]
ObsGroups ==   \* rows matched by key (the order of the rows is not part of the property)
  Done => \A l \in Levels :
    /\ Chk("group_count", Len(Obs.tables[l]) = Len(tables[l].rows))
    /\ \A g \in DOMAIN tables[l].val :
         /\ Chk("group_present", HasRowD(l, g))
         /\ HasRowD(l, g) =>
              LET e == tables[l].val[g]  o == RowForD(l, g) IN
              /\ Chk("group_counted", o.counted = e.counted)
              /\ Chk("group_reporting", o.reporting = e.reporting)
              /\ (Est # "bootstrap" =>
                    /\ Chk("group_pred", o.pred = e.pred)
                    /\ (Est = "nonparametric" => \A a \in 1..NAlpha :
                          Chk("group_lower", o.lower[a] = e.lower[a]) /\ Chk("group_upper", o.upper[a] = e.upper[a])))
              /\ (Est = "bootstrap" =>
                    /\ Chk("group_turnout", Abs(o.pt - e.ptsum) <= e.nmemb + 1)
                    /\ Chk("group_margin", Abs(o.pm - e.pmsum) <= e.nmemb + 1))

\* the specification's own Delta (holds by model checking; evaluated here on the recorded scenario as well)
TDeltaUnits  == Chk("delta_units", DeltaUnits)
TDeltaGroups == Chk("delta_groups", DeltaGroups)
TDeltaAttr   == Chk("delta_always_attributed", DeltaAlwaysAttributed)

\* every number on every other row is unchanged, bit for bit
RowOf(tbl, g) == CHOOSE k \in 1..Len(tbl) : tbl[k].key = g
ObsUnchanged ==
  Done2 =>
    /\ \A i \in 1..(X - 1) : Chk("other_unit_unchanged", T.obs1.utable[i].tok = T.obs0.utable[i].tok)
    /\ \A l \in Levels : \A k \in 1..Len(T.obs1.tables[l]) :
         LET o == T.obs1.tables[l][k] IN
         ~XAttributable(l, o.key) =>
           /\ Chk("other_group_still_present", \E j \in 1..Len(T.obs0.tables[l]) : T.obs0.tables[l][j].key = o.key)
           /\ Chk("other_group_unchanged",
                  \A j \in 1..Len(T.obs0.tables[l]) : T.obs0.tables[l][j].key = o.key => T.obs0.tables[l][j].tok = o.tok)
    \* gaussian: the attributable groups move by exactly the unit's votes as well (their bounds are model output)
    /\ Est = "gaussian" => \A l \in Levels : \A k \in 1..Len(T.obs1.tables[l]) :
         LET o == T.obs1.tables[l][k] IN
         (XAttributable(l, o.key) /\ \E j \in 1..Len(T.obs0.tables[l]) : T.obs0.tables[l][j].key = o.key) =>
           LET b == T.obs0.tables[l][RowOf(T.obs0.tables[l], o.key)] IN
           \A a \in 1..NAlpha : /\ Chk("gaussian_lower_plus_v", o.lower[a] = b.lower[a] + extra.votes)
                                /\ Chk("gaussian_upper_plus_v", o.upper[a] = b.upper[a] + extra.votes)
=============================================================================
