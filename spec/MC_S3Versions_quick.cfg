SPECIFICATION Spec
CONSTANTS
  MaxN = 5
  MaxT = 3
  PageLimit = 3
  Steps <- Steps123
  ZoneSeq <- Zones1
  Export = FALSE
INVARIANT TypeOK
INVARIANT ExactWindow
INVARIANT StopIsSafe
INVARIANT Sampled
INVARIANT OwnStamp
INVARIANT SkipFailures
INVARIANT NoData
CHECK_DEADLOCK FALSE
