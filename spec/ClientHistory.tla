--------------------------- MODULE ClientHistory ---------------------------
(* C12 - estimates are a deterministic function of the arguments.

   The part of ModelClient that matters for reproducibility, as a state machine over HISTORIES of calls:

     process   the interpreter: its hash seed (PYTHONHASHSEED), the process-global entropy (numpy's legacy global
               RandomState, the `random` module - anything that is drawn without a seed reads it and nobody can
               repeat what it returned), and the two MUTABLE DEFAULT ARGUMENT objects of get_estimates
               (`prediction_intervals=[0.7, 0.9]`, `model_parameters={}`): they are created once per process and
               every call that omits the argument sees the same object, whatever earlier calls did to it;
     client    a ModelClient object: `self.model` (client.get_estimates L382-391 builds a NEW model object in every
               call), and through it the model's own generator and the bootstrap's `ran_bootstrap` flag;
     memo      (`seen`) for every argument tuple the set of abstract output digests ever returned for it.

   An abstract digest lists everything the returned tables depend on: the estimator, the EFFECTIVE arguments (the
   caller's lists, or the current content of the default objects), and for every random stream the run read where
   its state came from:
       Seeded              re-created from the seed setting inside this run (sample(random_state=self.seed);
                           default_rng(self.seed) in GaussianModel.fit; BootstrapElectionModel.rng created in
                           __init__ of the per-call model object)
       Entropy(n)          the process-global stream at position n (n never repeats)
       Kept(eff)           bootstrap matrices computed by an EARLIER call with effective arguments eff and kept
                           because `ran_bootstrap` was still set on a reused model object
   and how the output was assembled (list order, or the iteration order of a set = a function of the hash seed).

   Functional   == every argument tuple has at most one digest.             (the property)
   SeedDerived  == no digest mentions process entropy.                      (its second sentence)

   The constants below are the design decisions the property rests on; TRUE is the repaired design that /repo
   implements today, FALSE switches one defect (back) on:
     SigmaSeeded        F2 (fixed by 8c91345): math_utils.boot_sigma draws from default_rng(seed); FALSE = scipy's
                        bootstrap called without a generator (process entropy)
     SplitSeeded        ConformalElectionModel L125 sample(frac=1, random_state=self.seed)
     BootSeeded         BootstrapElectionModel L105 default_rng(seed=self.seed)
     FreshModelPerCall  client L382-391; FALSE = `self.model` reused when the estimator matches
     DefaultsUntouched  nobody mutates the default list / dict; FALSE = a default-argument call appends to it
     OrderedIteration   outputs are assembled by iterating lists; FALSE = by iterating a set(...) of strings
     SummaryStateless   get_national_summary_estimates computes everything from ITS arguments (weights, base, levels)
                        and the contest-level errors of the run; FALSE = the weight-dependent part is computed by the
                        first summary after a run and kept on the model object (seeded change C12_D)

     WeightsRebuilt     the baseline weights of a margin run are the two party votes whether or not the caller's frame
                        already carries the margin column (repair of finding F17); FALSE = the code as found: a run adds
                        the column to the CALLER'S frame, a later run on the same frame object finds it, does not rebuild
                        it and keeps the turnout as weights

     FeedCopied         the client works on a COPY of the caller's feed frame (CombinedDataHandler copies it before the
                        derived results columns are added); FALSE = the derived columns of a margin run (two-party
                        results weights, margin) are written into the caller's frame, and a later turnout / party run
                        handed the same frame object keeps them instead of its own weights (seeded changes C01_J,
                        C09_J, C11_J, C12_J of round 6)

     OutlierColumnsOwn  the outlier detection models of a run use the columns of ITS request; FALSE = the code as found
                        (open finding F19): they use `baseline_normalized_margin` whenever the frame carries it, and an
                        earlier margin run on the same baseline frame object has left it there - a turnout / party run
                        with the outlier models on then sets other units aside than the same run on a fresh frame

   The caller's baseline frame is an object that outlives a call (`proc.frame`: "pristine" or "worked" = an earlier
   margin run has left its columns in it); a new process loads a pristine frame.
   A national summary has its own argument tuple (weights / base / levels), independent of the arguments of the
   estimate run it follows: its key is (arguments of the run, arguments of the summary). *)
EXTENDS Naturals, Sequences, FiniteSets, TLC

CONSTANTS Estimators, ArgIds, DefaultArgIds, HashSeeds,
          SigmaSeeded, SplitSeeded, BootSeeded, FreshModelPerCall, DefaultsUntouched, OrderedIteration,
          SummaryStateless, WeightsRebuilt, FeedCopied, OutlierColumnsOwn

VARIABLES proc,     \* [id, hash, defaults, frame, feed]  feed = the caller's feed frame (same states as frame);   defaults = content of the default-argument objects; frame = the caller's baseline frame
          client,   \* [serial, model]        model = NoModel or [est, eff, draws, ran]
          entropy,  \* position of the process-global stream (monotone, never repeats, survives nothing)
          seen,     \* [key -> set of digests]
          hist      \* the calls made so far (exported for replay)

hvars == <<proc, client, entropy, seen, hist>>

Pristine == <<"default">>
NoEff == [id |-> "-", pis |-> <<>>]
\* where the state of a random stream came from (uniform records, so that digests are comparable)
Src(kind, pos, eff) == [kind |-> kind, pos |-> pos, eff |-> eff]
NoSrc == Src("-", 0, NoEff)
Seeded == Src("seed", 0, NoEff)
Entropy(n) == Src("entropy", n, NoEff)
Kept(eff) == Src("kept", 0, eff)
NoModel == [est |-> "none", eff |-> NoEff, draws |-> NoSrc, ran |-> FALSE, nat |-> "-"]
FreshClient(n) == [serial |-> n, model |-> NoModel]

EstKey(e, a) == <<e, a>>
NatKey(a, sa) == <<"summary", a, sa>>
Keys == {EstKey(e, a) : e \in Estimators, a \in ArgIds} \cup {NatKey(a, sa) : a \in ArgIds, sa \in ArgIds}

Conformal == {"nonparametric", "gaussian"}

\* effective arguments of a call with argument tuple a
Eff(a) == [id |-> a, pis |-> IF a \in DefaultArgIds THEN proc.defaults ELSE <<a>>]

\* the client object a call runs on, and the model object it uses
ClientOf(fresh) == IF fresh THEN FreshClient(client.serial + 1) ELSE client
ModelOf(e, a, fresh) ==
  LET c == ClientOf(fresh) IN
  IF ~FreshModelPerCall /\ c.model.est = e
  THEN c.model                                                       \* deviation: reuse
  ELSE [est |-> e, eff |-> Eff(a), draws |-> NoSrc, ran |-> FALSE, nat |-> "-"]    \* client.py L382-391

\* hash seeds are strings ("0", "1", "random") so that the two shapes stay comparable
Order == IF OrderedIteration THEN [kind |-> "list", hash |-> "-"] ELSE [kind |-> "set", hash |-> proc.hash]

\* BootstrapElectionModel.get_unit_predictions L1410: the bootstrap runs once per model object
DrawsOf(e, a, fresh) ==
  LET m == ModelOf(e, a, fresh) IN
  IF e # "bootstrap" THEN NoSrc
  ELSE IF m.ran THEN Kept(m.eff)
  ELSE IF BootSeeded THEN Seeded ELSE Entropy(entropy + 2)

Digest(e, a, fresh) ==
  [ est   |-> e,
    eff   |-> Eff(a),
    split |-> IF e \in Conformal THEN (IF SplitSeeded THEN Seeded ELSE Entropy(entropy)) ELSE NoSrc,
    sigma |-> IF e = "gaussian" THEN (IF SigmaSeeded THEN Seeded ELSE Entropy(entropy + 1)) ELSE NoSrc,
    draws |-> DrawsOf(e, a, fresh),
    order |-> Order,
    weights |-> "-",
    bweights |-> IF e = "bootstrap" THEN (IF ~WeightsRebuilt /\ proc.frame = "worked" THEN "turnout" ELSE "two party") ELSE "-",
    rweights |-> IF e \in Conformal THEN (IF ~FeedCopied /\ proc.feed = "worked" THEN "two party" ELSE "own") ELSE "-",
    ofeat |-> IF e \in Conformal THEN (IF ~OutlierColumnsOwn /\ proc.frame = "worked" THEN "margin column" ELSE "own") ELSE "-" ]

\* the weights a summary with argument tuple sa effectively uses
WeightsUsed(sa) == IF SummaryStateless \/ client.model.nat = "-" THEN sa ELSE client.model.nat
NatDigest(sa) ==
  [ est |-> "summary", eff |-> client.model.eff, split |-> NoSrc, sigma |-> NoSrc,
    draws |-> client.model.draws, order |-> Order, weights |-> WeightsUsed(sa), bweights |-> "-", rweights |-> "-", ofeat |-> "-" ]

Record(k, d) == seen' = [seen EXCEPT ![k] = @ \cup {d}]

(* ---- actions ---- *)
GetEstimates(e, a, fresh) ==
  LET d == Digest(e, a, fresh)
      m == ModelOf(e, a, fresh)
  IN /\ client' = [serial |-> ClientOf(fresh).serial,
                   model  |-> [m EXCEPT !.draws = IF e = "bootstrap" THEN d.draws ELSE @,
                                        !.eff   = IF e = "bootstrap" /\ m.ran THEN @ ELSE Eff(a),
                                        !.ran   = (e = "bootstrap"),
                                        !.nat   = IF e = "bootstrap" /\ m.ran THEN @ ELSE "-"]]
     /\ entropy' = entropy + 3          \* whatever was read, the global stream never returns to an old position
     /\ proc' = [proc EXCEPT !.defaults = IF ~DefaultsUntouched /\ a \in DefaultArgIds THEN Append(@, "mutated") ELSE @,
                              !.frame = IF e = "bootstrap" THEN "worked" ELSE @,   \* a margin run leaves its columns behind
                              !.feed = IF e = "bootstrap" /\ ~FeedCopied THEN "worked" ELSE @]
     /\ Record(EstKey(e, a), d)
     /\ hist' = Append(hist, [op |-> "est", est |-> e, arg |-> a, sarg |-> "-", fresh |-> fresh])

\* client.get_national_summary_votes_estimates: reads what the last run left on self.model; only the bootstrap
\* model implements it (the others raise NotImplementedError: not part of a history)
NatSummaryEnabled == client.model.est = "bootstrap" /\ client.model.ran
NatSummary(sa) ==
  /\ NatSummaryEnabled
  /\ Record(NatKey(client.model.eff.id, sa), NatDigest(sa))
  /\ entropy' = entropy + 1
  /\ hist' = Append(hist, [op |-> "summary", est |-> "bootstrap", arg |-> client.model.eff.id, sarg |-> sa, fresh |-> FALSE])
  /\ client' = [client EXCEPT !.model.nat = IF SummaryStateless \/ @ # "-" THEN @ ELSE sa]
  /\ UNCHANGED proc

\* a new interpreter: new hash seed, pristine default objects, no client; entropy is NOT reset (it is entropy)
NewProcess(h) ==
  /\ proc' = [id |-> proc.id + 1, hash |-> h, defaults |-> Pristine, frame |-> "pristine", feed |-> "pristine"]
  /\ client' = FreshClient(client.serial + 1)
  /\ entropy' = entropy + 1
  /\ hist' = Append(hist, [op |-> "process", est |-> "-", arg |-> "-", sarg |-> "-", fresh |-> TRUE])
  /\ UNCHANGED seen

HInit(h) ==
  /\ proc = [id |-> 1, hash |-> h, defaults |-> Pristine, frame |-> "pristine", feed |-> "pristine"]
  /\ client = FreshClient(1)
  /\ entropy = 0
  /\ seen = [k \in Keys |-> {}]
  /\ hist = <<>>

HNext ==
  \/ \E e \in Estimators, a \in ArgIds, fresh \in BOOLEAN : GetEstimates(e, a, fresh)
  \/ \E sa \in ArgIds : NatSummary(sa)
  \/ \E h \in HashSeeds : NewProcess(h)

(* ---- properties ---- *)
Functional == \A k \in Keys : Cardinality(seen[k]) <= 1

UsesEntropy(d) == d.split.kind = "entropy" \/ d.sigma.kind = "entropy" \/ d.draws.kind = "entropy"
SeedDerived == \A k \in Keys : \A d \in seen[k] : ~UsesEntropy(d)
=============================================================================
