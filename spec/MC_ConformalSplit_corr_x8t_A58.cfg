SPECIFICATION CorrSpec
CONSTANTS
  GuardTrain = TRUE
  GridMaxN = 600
  MultiMaxN = 60
  CalSizes = {8}
  ScoreLo <- Neg1
  ScoreHi = 2
  WeightSeq <- W12
  AlphaSet <- A58
  RankMaxN = 60
  Export = TRUE
CONSTRAINT CorrExport
INVARIANT WeightedCoverage
INVARIANT SmallestCorrection
INVARIANT RobustDominates
INVARIANT UnweightedBracketed
INVARIANT NonRobustIsPopulation
INVARIANT Symmetric
INVARIANT Monotone
INVARIANT BoundsFloored
INVARIANT BoundsFromCorrection
CHECK_DEADLOCK FALSE
