#!/bin/sh
# usage: try_mutant.sh <patchfile> <prop> [tier]   -- applies a patch to /repo, runs the check, reverts. prints exit code
patch="$1"; prop="$2"; tier="${3:-quick}"
cd /repo || exit 2
git diff --quiet || { echo "repo dirty"; exit 2; }
git apply "$patch" || { echo "patch does not apply"; exit 2; }
cd /verif && ./run_check.sh "$prop" "$tier" > /tmp/mutant_$prop.log 2>&1
rc=$?
cd /repo && git checkout -- . 
echo "mutant $(basename $patch) on $prop -> exit $rc; $(grep -c '^VIOLATION' /tmp/mutant_$prop.log) violation lines; $(grep 'clause=' /tmp/mutant_$prop.log | head -1 | cut -c1-160)"
exit 0
