#!/bin/sh
# usage: try_mutant.sh <patchfile> <prop> [tier]
# Applies a patch to a scratch copy of /repo/src (so that other users of /repo are not disturbed), runs the check with
# VERIF_REPO_SRC pointing at it, removes the copy and prints the exit code.
patch="$1"; prop="$2"; tier="${3:-quick}"
d=$(mktemp -d /tmp/verif_mut_XXXXXX)
git -C /repo archive HEAD src | tar -x -C "$d" || exit 2
( cd "$d" && patch -p1 -s < "$patch" ) || { echo "patch does not apply"; rm -rf "$d"; exit 2; }
cd /verif && VERIF_REPO_SRC="$d/src" VERIF_EVIDENCE_DIR="$d/evidence" VERIF_REPLAY_DIR="$d/replays" ./run_check.sh "$prop" "$tier" > /tmp/mutant_${prop}_$(basename $patch .patch).log 2>&1
rc=$?
rm -rf "$d"
echo "mutant $(basename $patch) on $prop -> exit $rc; $(grep -c '^VIOLATION' /tmp/mutant_${prop}_$(basename $patch .patch).log) violation lines; $(grep 'clause=' /tmp/mutant_${prop}_$(basename $patch .patch).log | head -1 | cut -c1-160)"
exit 0
