#!/usr/bin/env python3
"""Run every self-test mutant (selftest/mutants/<PROP>_*.patch) and every seeded change (seeded/<PROP>_<X>/patch.diff)
against the quick tier of its property on a scratch copy of /repo/src (VERIF_REPO_SRC), and write
selftest/mutant_results.json.  usage: run_mutants.py [--only PROP ...] [--seeded-only] [--retry-failed] [--jobs N]"""
import glob
import json
import os
import re
import shutil
import subprocess
import sys
import tempfile
import time
from concurrent.futures import ThreadPoolExecutor

ROOT = os.path.dirname(os.path.dirname(os.path.abspath(__file__)))
EXTRA_CHECKS = {"C05_B": ["C05", "C20"]}  # needs a solver fault to manifest: decided by the retry property's check  # seeded changes that are (also) caught by another property's check


def run_one(item):
    name, patch, checks = item
    d = tempfile.mkdtemp(prefix="verif_mut_")
    try:
        subprocess.run(f"git -C /repo archive HEAD src | tar -x -C {d}", shell=True, check=True)
        p = subprocess.run(f"patch -p1 -s < {patch}", shell=True, cwd=d, capture_output=True, text=True)
        if p.returncode != 0:
            return name, {"error": "patch does not apply: " + (p.stdout + p.stderr)[:200]}
        out = {}
        for c in checks:
            env = dict(os.environ, VERIF_REPO_SRC=f"{d}/src", VERIF_REPLAY_DIR=f"{d}/replays", VERIF_EVIDENCE_DIR=f"{d}/evidence")
            t0 = time.time()
            for attempt in range(2):
                q = subprocess.run(["./run_check.sh", c, "quick"], cwd=ROOT, env=env, capture_output=True, text=True)
                if q.returncode != 2:
                    break  # exit 2 = the machinery failed (seen under heavy load): once more before it is recorded
            txt = q.stdout + q.stderr
            out[c] = {"exit": q.returncode, "clauses": sorted(set(re.findall(r"clause=(\S+)", txt)))[:5], "wall_s": round(time.time() - t0)}
            if q.returncode == 2:
                out[c]["machinery"] = [l for l in txt.splitlines() if "MACHINERY" in l][:2]
        return name, out
    finally:
        shutil.rmtree(d, ignore_errors=True)


def main():
    only = None
    if "--only" in sys.argv:
        only = [a for a in sys.argv[sys.argv.index("--only") + 1 :] if not a.startswith("--")]
    jobs = int(sys.argv[sys.argv.index("--jobs") + 1]) if "--jobs" in sys.argv else 2
    items = []
    if "--seeded-only" not in sys.argv:
        for f in sorted(glob.glob(f"{ROOT}/selftest/mutants/*.patch")):
            prop = os.path.basename(f).split("_")[0]
            if only and prop not in only:
                continue
            items.append(("mutant:" + os.path.basename(f)[:-6], f, [prop]))
    for dpath in sorted(glob.glob(f"{ROOT}/seeded/*/")):
        nm = os.path.basename(dpath.rstrip("/"))
        prop = nm.split("_")[0]
        if only and prop not in only:
            continue
        items.append(("seeded:" + nm, f"{dpath}patch.diff", EXTRA_CHECKS.get(nm, [prop])))
    res_path = f"{ROOT}/selftest/mutant_results.json"
    results = json.load(open(res_path)) if os.path.exists(res_path) else {}
    if "--retry-failed" in sys.argv:
        # only the items whose last recorded result is a machinery failure, an inapplicable patch, or missing
        def failed(name):
            r = results.get(name)
            return r is None or "error" in r or any(isinstance(v, dict) and v.get("exit") == 2 for v in r.values())

        items = [it for it in items if failed(it[0])]
        print(f"retrying {len(items)} items", flush=True)
    with ThreadPoolExecutor(max_workers=jobs) as ex:
        for name, out in ex.map(run_one, items):
            results[name] = out
            caught = isinstance(out, dict) and any(isinstance(v, dict) and v.get("exit") == 1 for v in out.values())
            benign = "_benign_" in name  # behaviour changes that keep the property: the check must stay silent
            label = ("FALSE-ALARM" if caught else "SILENT(ok)") if benign else ("CAUGHT" if caught else "MISSED")
            print(f"{name}: {label} {out}", flush=True)
            with open(res_path, "w") as f:
                json.dump(results, f, indent=1, sort_keys=True)
    missed = [k for k, v in results.items() if not any(isinstance(x, dict) and x.get("exit") == 1 for x in v.values())]
    print(f"{len(results) - len(missed)}/{len(results)} caught; missed: {missed}")


if __name__ == "__main__":
    main()
