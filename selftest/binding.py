#!/usr/bin/env python3
"""Binding self-test (DESIGN 3.6): the trace specifications must accept a faithfully recorded real run and reject it
after ONE recorded field is corrupted.  Covers the ledger engine (Trace_Ledger), the calls engine (Trace_Bootstrap,
Trace_NationalSummary) and the supplementary bootstrap pipeline model (Trace_BootstrapRun).  Exit 0 = the machinery discriminates; exit 2 otherwise."""
import copy
import json
import os
import random
import sys
import tempfile

sys.path.insert(0, os.path.dirname(os.path.dirname(os.path.abspath(__file__))))
from harness import calls, ledger, report, tlc  # noqa: E402


def verdict(module, cfg, traces):
    fd, path = tempfile.mkstemp(suffix=".json")
    with os.fdopen(fd, "w") as f:
        f.write(report.dumps(traces))
    try:
        res = tlc.run_tlc(module, cfg, workers=1, env={"TRACE_FILE": path}, timeout=300)
    finally:
        os.unlink(path)
    fails = [v for t, v in res.printed if t == "FAIL"]
    return (res.violation is None and not res.postcondition_failed), (fails[-1]["clause"] if fails else None)


def expect(name, ok, want_ok, clause=None, want_clause=None):
    good = ok == want_ok and (want_clause is None or clause == want_clause)
    print(f"  {'ok ' if good else 'BAD'} {name}: accepted={ok} clause={clause}")
    return good


def main():
    rnd = random.Random(11)
    allok = True
    pack = [ledger.random_scenario(rnd, 6, "drop", False, ledger.LEVEL_LISTS[1]) for _ in range(3)]
    c, res, meta, _ = ledger.run_pack(pack, "nonparametric", 11)
    tr = ledger.trace_of(pack, res, meta, "nonparametric", (0.7, 0.9))
    ok, cl = verdict("Trace_Ledger", "Trace_Ledger_C01.cfg", tr)
    allok &= expect("ledger: recorded run accepted", ok, True)
    bad = copy.deepcopy(tr)
    bad[1]["obs"]["tables"]["postal_code"][0]["counted"] += 1
    ok, cl = verdict("Trace_Ledger", "Trace_Ledger_C01.cfg", bad)
    allok &= expect("ledger: counted votes +1 rejected", ok, False, cl, "group_counted")
    bad = copy.deepcopy(tr)
    row = bad[2]["obs"]["tables"]["county_fips"]
    if len(row) > 1:
        # the VALUES of two rows exchanged (keys stay): interval / prediction columns sit on the wrong group's row
        row[0]["key"], row[1]["key"] = row[1]["key"], row[0]["key"]
        ok, cl = verdict("Trace_Ledger", "Trace_Ledger_C02.cfg", bad)
        allok &= expect("ledger: values of two group rows exchanged rejected", ok, False)
    bad = copy.deepcopy(tr)
    for u in bad[0]["obs"]["utable"]:
        if u["present"] and u["reporting"] == 0 and u["cat"] == "expected":
            u["lower"][0] = u["votes"] - 1
            break
    ok, cl = verdict("Trace_Ledger", "Trace_Ledger_C03.cfg", bad)
    allok &= expect("ledger: unit lower bound below counted rejected", ok, False, cl, "unit_lower_floor")
    # calls engine
    recs = [calls.ranks_record(7), calls.bounds_record(3, [-3, 0, 2, 2], [500, 900], rnd), calls.known_part_record(rnd)]
    ok, cl = verdict("Trace_Bootstrap", "Trace_Bootstrap_C06.cfg", recs)
    allok &= expect("bootstrap: recorded ranks/bounds accepted", ok, True)
    bad = copy.deepcopy(recs)
    bad[0]["ru"][500] = bad[0]["B"] + 1
    ok, cl = verdict("Trace_Bootstrap", "Trace_Bootstrap_C06.cfg", bad)
    allok &= expect("bootstrap: a rank above B rejected", ok, False, cl, "ranks_valid")
    bad = copy.deepcopy(recs)
    bad[1]["obs"][0]["alo"] = bad[1]["p"] * 1000 + 5
    ok, cl = verdict("Trace_Bootstrap", "Trace_Bootstrap_C06.cfg", bad)
    allok &= expect("bootstrap: aggregate lower bound above the prediction rejected", ok, False, cl, "prediction_strictly_inside")
    bad = copy.deepcopy(recs)
    bad[2]["obs"]["lower"] -= 40
    ok, cl = verdict("Trace_Bootstrap", "Trace_Bootstrap_C11.cfg", bad)
    allok &= expect("bootstrap (C11): bound of a group with an unexpected unit moved rejected", ok, False, cl, "known_lower")
    ns = dict(p={"AA": -1, "BB": 6}, b1={"AA": [4, -4], "BB": [4, 4]}, b2={"AA": [-4, -4], "BB": [4, -4]}, w={"AA": 3, "BB": 5},
              lhs=[], rhs=[], stop=[], corr=True, base=10, nweights=2, history=[])
    rec = {"kind": "inject", "ns": ns, "obs": calls.run_summary_injected(ns)}
    rec["earlier"] = {k: rec["obs"][k] for k in ("kind", "pred", "lower", "upper")}
    ok, cl = verdict("Trace_NationalSummary", "Trace_NationalSummary.cfg", [rec])
    allok &= expect("national summary: injected scenario accepted", ok, True)
    bad = copy.deepcopy(rec)
    bad["obs"]["lower"] = bad["obs"]["pred"] + 3
    ok, cl = verdict("Trace_NationalSummary", "Trace_NationalSummary.cfg", [bad])
    allok &= expect("national summary: lower bound above the prediction rejected", ok, False, cl, "ordered")
    bad = copy.deepcopy(rec)
    bad["earlier"]["lower"] = bad["obs"]["pred"]
    ok, cl = verdict("Trace_NationalSummary", "Trace_NationalSummary.cfg", [bad])
    allok &= expect("national summary: a triple that depends on an earlier round of calls rejected", ok, False, cl, "summary_independent_of_an_earlier_round_of_calls")
    # S09 BootstrapRun: one recorded model object of a real bootstrap client run
    from harness import bootrun

    recs = bootrun.job_random(3)["runs"]
    ok, cl = verdict("Trace_BootstrapRun", "Trace_BootstrapRun.cfg", recs[:1])
    allok &= expect("bootstrap run: recorded pipeline accepted", ok, True)
    for field, value, clause in (("runs_on_object", 2, "pipeline_ran_once_on_the_object"), ("global_rng_used", True, "process_wide_generators_untouched"),
                                 ("eps_count", 99, "contest_effect_only_with_two_training_units")):
        bad = copy.deepcopy(recs[:1])
        bad[0][field] = value
        ok, cl = verdict("Trace_BootstrapRun", "Trace_BootstrapRun.cfg", bad)
        allok &= expect(f"bootstrap run: {field} corrupted -> rejected", ok, False, cl, clause)
    bad = copy.deepcopy(recs[:1])
    bad[0]["facts"]["y_boot_clipped"] = False
    ok, cl = verdict("Trace_BootstrapRun", "Trace_BootstrapRun.cfg", bad)
    allok &= expect("bootstrap run: a stored factor outside its clipping bounds rejected", ok, False, cl, "stored_factors_inside_the_clipping_bounds")
    bad = copy.deepcopy(recs[:1])
    bad[0]["shapes"]["errors_B_2"] = [bad[0]["shapes"]["errors_B_2"][0] + 1, bad[0]["shapes"]["errors_B_2"][1]]
    ok, cl = verdict("Trace_BootstrapRun", "Trace_BootstrapRun.cfg", bad)
    allok &= expect("bootstrap run: a stored matrix with one row too many rejected", ok, False, cl, "stored_matrices_have_one_row_per_outstanding_unit_and_one_column_per_draw")
    print("binding self-test:", "passed" if allok else "FAILED")
    return 0 if allok else 2


if __name__ == "__main__":
    sys.exit(main())
