#!/usr/bin/env python3
"""Confirm an independently written breaking change and file it under /verif/seeded/<id>_<variant>/.

usage: seed_confirm.py <prop> <variant> [--check PROP2 ...]
 1. in the seeding worktree /tmp/seed/<prop>: demo passes on the clean tree, patch applies, full test suite with the
    patch gives 156 passed and only the baseline failures, demo fails with the patch; worktree restored;
 2. the patch is applied to /repo, the registered quick check(s) run, /repo is restored (git checkout -- .);
 3. patch.diff, demo.py, README.md and meta.json are written to /verif/seeded/<prop>_<variant>/.
"""
import json
import os
import re
import shutil
import subprocess
import sys
import time

BASE_FAIL = {"tests/handlers/test_live_data.py::test_sample_overweight", "tests/utils/test_file_utils.py::test_get_directory_path"}
FLAKY = "tests/handlers/test_combined_data.py::test_get_unexpected_units_county"


def sh(cmd, cwd=None, env=None, timeout=3600):
    e = dict(os.environ)
    e.update({"APP_ENV": "local", "DATA_ENV": "dev", "MODEL_S3_BUCKET": "elex-models", "MODEL_S3_PATH_ROOT": "elex-models"})
    if env:
        e.update(env)
    p = subprocess.run(cmd, shell=True, cwd=cwd, env=e, capture_output=True, text=True, timeout=timeout)
    return p.returncode, p.stdout + p.stderr


def main():
    prop, variant = sys.argv[1], sys.argv[2]
    checks = [prop]
    if "--check" in sys.argv:
        checks = [a for a in sys.argv[sys.argv.index("--check") + 1 :] if not a.startswith("--")]
    wt = f"/tmp/seed/{prop}"
    src = f"{wt}/out/{variant}"
    env = {"PYTHONPATH": f"{wt}/src"}
    meta = {"property": prop, "variant": variant, "ran": []}
    rc, out = sh("git status --porcelain src tests", cwd=wt)
    assert out.strip() == "", f"worktree not clean: {out}"
    demo = "demo.py" if os.path.exists(f"{src}/demo.py") else [f for f in os.listdir(src) if f.endswith(".py")][0]
    is_pytest = "def test_" in open(f"{src}/{demo}").read() and "__main__" not in open(f"{src}/{demo}").read()
    demo_cmd = (f"/venv/bin/python -m pytest -q -p no:cacheprovider {src}/{demo}" if is_pytest else f"/venv/bin/python {src}/{demo}")
    rc0, out0 = sh(demo_cmd, cwd=wt, env=env)
    meta["ran"].append({"cmd": demo_cmd + " (clean tree)", "exit": rc0})
    rc, out = sh(f"git apply {src}/patch.diff", cwd=wt)
    assert rc == 0, f"patch does not apply: {out}"
    try:
        rc1, out1 = sh(demo_cmd, cwd=wt, env=env)
        meta["ran"].append({"cmd": demo_cmd + " (with change)", "exit": rc1})
        for attempt in range(2):
            rct, outt = sh("/venv/bin/python -m pytest -q -p no:cacheprovider --timeout=900 -ra", cwd=wt, env=env)
            failed = set(re.findall(r"^FAILED (\S+)", outt, re.M)) | set(re.findall(r"^ERROR (\S+)", outt, re.M))
            m = re.search(r"(\d+) passed", outt)
            passed = int(m.group(1)) if m else 0
            if failed - BASE_FAIL == {FLAKY}:
                continue
            break
        meta["ran"].append({"cmd": "full test suite with change", "passed": passed, "failed": sorted(failed)})
    finally:
        sh("git checkout -- src tests", cwd=wt)
    ok = rc0 == 0 and rc1 != 0 and failed <= BASE_FAIL and passed == 156
    meta["confirmed"] = ok
    print(f"[{prop}/{variant}] demo clean={rc0} with-change={rc1}; suite passed={passed} failed={sorted(failed - BASE_FAIL)} -> confirmed={ok}")
    if not ok:
        print(out1[-800:])
        return 1
    # run our checks against it.  While other sessions are using /repo the patch is applied to a scratch copy of
    # /repo/src (VERIF_REPO_SRC, honoured by every harness); with --in-repo it is applied to /repo itself
    # (git apply ... ; checks ; git checkout -- .), which is the reference procedure.
    in_repo = "--in-repo" in sys.argv
    results = {}
    scratch = None
    if in_repo:
        rc, out = sh("git diff --quiet", cwd="/repo")
        assert rc == 0, "/repo is dirty"
        rc, out = sh(f"git apply {src}/patch.diff", cwd="/repo")
        assert rc == 0, f"patch does not apply to /repo: {out}"
        cenv = {"PYTHONPATH": "/verif"}
    else:
        import tempfile

        scratch = tempfile.mkdtemp(prefix="verif_seed_")
        sh(f"git -C /repo archive HEAD src | tar -x -C {scratch}")
        rc, out = sh(f"patch -p1 -s < {src}/patch.diff", cwd=scratch)
        assert rc == 0, f"patch does not apply to the scratch copy: {out}"
        cenv = {"PYTHONPATH": "/verif", "VERIF_REPO_SRC": f"{scratch}/src", "VERIF_EVIDENCE_DIR": f"{scratch}/evidence", "VERIF_REPLAY_DIR": f"{scratch}/replays"}
    try:
        for c in checks:
            t0 = time.time()
            rc, out = sh(f"./run_check.sh {c} quick", cwd="/verif", env=cenv)
            clauses = sorted(set(re.findall(r"clause=(\S+)", out)))[:6]
            results[c] = {"exit": rc, "violation_lines": len(re.findall(r"^VIOLATION", out, re.M)), "clauses": clauses, "wall_s": round(time.time() - t0)}
            print(f"   check {c} quick -> exit {rc}, clauses {clauses}")
    finally:
        if in_repo:
            sh("git checkout -- .", cwd="/repo")
        else:
            shutil.rmtree(scratch, ignore_errors=True)
    meta["applied_to"] = "/repo (git apply, reverted)" if in_repo else "scratch copy of /repo/src via VERIF_REPO_SRC"
    meta["checks"] = results
    meta["detected"] = any(v["exit"] == 1 for v in results.values())
    dst = f"/verif/seeded/{prop}_{variant}"
    os.makedirs(dst, exist_ok=True)
    shutil.copy(f"{src}/patch.diff", f"{dst}/patch.diff")
    shutil.copy(f"{src}/{demo}", f"{dst}/{demo}")
    if os.path.exists(f"{src}/README.md"):
        shutil.copy(f"{src}/README.md", f"{dst}/README.md")
        txt = open(f"{src}/README.md").read()
        meta["needs_to_manifest"] = " ".join(txt.split())[:1200]
    with open(f"{dst}/meta.json", "w") as f:
        json.dump(meta, f, indent=1)
    return 0


if __name__ == "__main__":
    sys.exit(main())
