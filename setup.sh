#!/bin/sh
# Offline setup: nothing is downloaded or built; parse every specification module with SANY so that a broken
# spec is noticed here and not inside a check.
cd "$(dirname "$0")"
rc=0
for f in spec/*.tla; do
  m=$(basename "$f" .tla)
  out=$(cd spec && java -cp /opt/veriftools/tla/tla2tools.jar:/opt/veriftools/tla/CommunityModules-deps.jar tla2sany.SANY "$m.tla" 2>&1)
  if echo "$out" | grep -q "\*\*\* Errors\|Fatal\|Could not"; then echo "SANY FAILED: $m"; echo "$out" | tail -20; rc=1; fi
done
PYTHONPATH="$(pwd)" /venv/bin/python -c "import harness.synth, harness.tlc, harness.report; print('harness imports ok')" || rc=1
# binding self-test: recorded real runs are accepted, the same runs with one corrupted field are rejected
PYTHONPATH="$(pwd)" /venv/bin/python selftest/binding.py || rc=1
exit $rc
